package grpctunnel

import (
	"context"
	"testing"

	"google.golang.org/grpc"
)

type staticCreds map[string]string

func (c staticCreds) GetRequestMetadata(context.Context, ...string) (map[string]string, error) {
	return c, nil
}
func (c staticCreds) RequireTransportSecurity() bool { return false }

// Per-RPC credentials with no outgoing metadata in the context must not panic
// (append to a nil metadata map) and the credentials must reach the request
// metadata.
func TestFindingC02NilMDWithCreds(t *testing.T) {
	c := &tunnelChannel{ctx: context.Background(), streams: map[int64]*tunnelClientStream{}, tunnelOpts: &tunnelOpts{}}
	_, md, err := c.allocateStream(context.Background(), false, false, "svc/m",
		[]grpc.CallOption{grpc.PerRPCCredentials(staticCreds{"authorization": "x"})})
	if err != nil || len(md.Get("authorization")) != 1 {
		t.Fatalf("md=%v err=%v", md, err)
	}
}
