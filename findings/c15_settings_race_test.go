package grpctunnel

import (
	"context"
	"io"
	"sync"
	"testing"

	"github.com/jhump/grpctunnel/tunnelpb"
)

// lateSettingsStream: a carrier whose context is already cancelled when the
// channel is created, and whose first Recv (the settings frame) is released only
// later. newTunnelChannel then returns through the ctx.Done() branch without
// having observed awaitSettings, while recvLoop is still about to write
// c.useRevision / c.settings.
type lateSettingsStream struct {
	ctx     context.Context
	release chan struct{}
	once    sync.Once
	sent    chan struct{}
}

func (s *lateSettingsStream) Context() context.Context { return s.ctx }
func (s *lateSettingsStream) Send(*tunnelpb.ClientToServer) error {
	return nil
}
func (s *lateSettingsStream) Recv() (*tunnelpb.ServerToClient, error) {
	first := false
	s.once.Do(func() { first = true })
	if first {
		<-s.release
		return &tunnelpb.ServerToClient{StreamId: -1, Frame: &tunnelpb.ServerToClient_Settings{Settings: &tunnelpb.Settings{
			InitialWindowSize: 65536, SupportedProtocolRevisions: []tunnelpb.ProtocolRevision{0, 1}}}}, nil
	}
	<-s.sent
	return nil, io.EOF
}

// Run with -race: newStream/allocateStream read c.useRevision and c.settings
// while recvLoop writes them.
func TestFindingC15SettingsRace(t *testing.T) {
	ctx, cancel := context.WithCancel(context.Background())
	cancel() // the context that opened the tunnel has already ended
	str := &lateSettingsStream{ctx: ctx, release: make(chan struct{}), sent: make(chan struct{})}
	c := newTunnelChannel(str, nil, true, &tunnelOpts{}, nil)
	var wg sync.WaitGroup
	wg.Add(1)
	go func() {
		defer wg.Done()
		_, _ = c.newStream(context.Background(), false, false, "svc/m")
	}()
	close(str.release) // recvLoop now processes the settings frame concurrently
	wg.Wait()
	close(str.sent)
	<-c.Done()
}
