package grpctunnel

import (
	"context"
	"testing"

	"github.com/fullstorydev/grpchan"
	"google.golang.org/grpc/codes"
	"google.golang.org/grpc/status"

	"github.com/jhump/grpctunnel/tunnelpb"
)

// A new_stream frame with an empty method name must be a stream-level
// InvalidArgument, not a panic of the serve loop.
func TestFindingC09EmptyMethod(t *testing.T) {
	s := &tunnelServer{services: grpchan.HandlerMap{}, tunnelOpts: &tunnelOpts{}, isClosing: func() bool { return false },
		streams: map[int64]*tunnelServerStream{}, lastSeen: -1}
	ok, err := s.createStream(context.Background(), 0, &tunnelpb.NewStream{MethodName: ""})
	if !ok || status.Code(err) != codes.InvalidArgument {
		t.Fatalf("got ok=%v err=%v", ok, err)
	}
}
