package grpctunnel

import (
	"context"
	"testing"

	"github.com/jhump/grpctunnel/tunnelpb"
)

// After the receiver has been cancelled (the watcher goroutine does that when
// the stream context ends) a read must fail; it must never return a nil error
// with no data, which RecvMsg would unmarshal into a fabricated empty message.
func TestFindingC01FabricatedMessage(t *testing.T) {
	// The context is still live when the read starts (the handler was already
	// blocked in dequeue when the deadline fired); only the receiver has been
	// cancelled by the watcher.
	ctx, cancel := context.WithCancel(context.Background())
	defer cancel()
	st := &tunnelServerStream{ctx: ctx, isClientStream: true}
	st.receiver = newReceiver(func(tunnelpb.ClientToServerFrame) uint { return 0 }, func(uint32) {}, initialWindowSize)
	st.receiver.cancel()
	data, ok, err := st.readMsgLocked()
	if err == nil {
		t.Fatalf("fabricated message: data=%v ok=%v err=nil", data, ok)
	}
}
