package grpctunnel

import (
	"context"
	"io"
	"testing"

	"github.com/jhump/grpctunnel/tunnelpb"
)

type scriptedClientStream struct {
	msgs []*tunnelpb.ServerToClient
}

func (s *scriptedClientStream) Context() context.Context          { return context.Background() }
func (s *scriptedClientStream) Send(*tunnelpb.ClientToServer) error { return nil }
func (s *scriptedClientStream) Recv() (*tunnelpb.ServerToClient, error) {
	if len(s.msgs) == 0 {
		return nil, io.EOF
	}
	m := s.msgs[0]
	s.msgs = s.msgs[1:]
	return m, nil
}

// A settings frame that lists no revisions means "revision zero only"
// (tunnel.proto), not "no common revision".
func TestFindingC11EmptyRevisionList(t *testing.T) {
	str := &scriptedClientStream{msgs: []*tunnelpb.ServerToClient{{StreamId: -1,
		Frame: &tunnelpb.ServerToClient_Settings{Settings: &tunnelpb.Settings{InitialWindowSize: 65536}}}}}
	ctx, cancel := context.WithCancel(context.Background())
	c := &tunnelChannel{stream: str, serverSendsSettings: true, tunnelOpts: &tunnelOpts{}, ctx: ctx, cancel: cancel,
		streams: map[int64]*tunnelClientStream{}, awaitSettings: make(chan struct{})}
	c.recvLoop()
	select {
	case <-c.awaitSettings:
	default:
		t.Fatalf("settings with an empty revision list rejected: %v", c.err)
	}
	if c.useRevision != tunnelpb.ProtocolRevision_REVISION_ZERO {
		t.Fatalf("revision %v", c.useRevision)
	}
}
