package grpctunnel
import ("testing";"google.golang.org/grpc/metadata";"math";"time")
func TestSpikeC18(t *testing.T){
  for _,c:=range []struct{s string; ok bool; d time.Duration}{
    {"99999999H",true,math.MaxInt64},{"2562048H",true,math.MaxInt64},{"2562047H",true,2562047*time.Hour},{"-1S",false,0},{"+5S",false,0},{"123456789012S",false,0},{"99999999M",true,99999999*time.Minute},{"5S",true,5*time.Second},{"S",false,0},{"12",false,0},{"1 S",false,0},{"0n",true,0},
  }{
    d,ok:=timeoutFromHeaders(metadata.Pairs("grpc-timeout",c.s))
    if ok!=c.ok || d!=c.d { t.Errorf("%q: got %v %v want %v %v",c.s,d,ok,c.d,c.ok)}
  }
}
