package grpctunnel

import (
	"testing"

	"google.golang.org/grpc/metadata"

	"github.com/jhump/grpctunnel/tunnelpb"
)

type spyReceiver struct {
	receiver[tunnelpb.ServerToClientFrame]
	atClose func()
}

func (s *spyReceiver) close() { s.atClose(); s.receiver.close() }

// Closing the receiver is what lets RecvMsg return the terminal result, so at
// that moment trailers (and the grpc.Trailer targets) must already be
// published and doneSignal closed.
func TestFindingC02TrailersAfterRelease(t *testing.T) {
	var target metadata.MD
	ch := &tunnelChannel{streams: map[int64]*tunnelClientStream{}}
	st := &tunnelClientStream{ch: ch, cancel: func() {}, streamID: 1, trailersTargets: []*metadata.MD{&target},
		gotHeadersSignal: make(chan struct{}), doneSignal: make(chan struct{})}
	inner := newReceiver(func(tunnelpb.ServerToClientFrame) uint { return 0 }, func(uint32) {}, initialWindowSize)
	var doneClosed bool
	var seen, seenTarget metadata.MD
	st.receiver = &spyReceiver{receiver: inner, atClose: func() {
		select {
		case <-st.doneSignal:
			doneClosed = true
		default:
		}
		seen, seenTarget = st.trailers, target
	}}
	st.finishStream(nil, metadata.Pairs("k", "v"))
	if !doneClosed || len(seen) != 1 || len(seenTarget) != 1 {
		t.Fatalf("receiver released before publication: doneSignal closed=%v trailers=%v target=%v", doneClosed, seen, seenTarget)
	}
}
