package grpctunnel

import (
	"context"
	"testing"

	"github.com/fullstorydev/grpchan"
	"google.golang.org/grpc/codes"
	"google.golang.org/grpc/status"

	"github.com/jhump/grpctunnel/tunnelpb"
)

// A stream that is refused at stream level (server shutting down, unsupported
// revision) must leave its id "known", so that the refused RPC's next frame is
// dropped rather than being a tunnel-level protocol error.
func TestFindingC03RefusalForgetsID(t *testing.T) {
	for _, closing := range []bool{true, false} {
		s := &tunnelServer{services: grpchan.HandlerMap{}, tunnelOpts: &tunnelOpts{}, isClosing: func() bool { return closing },
			streams: map[int64]*tunnelServerStream{}, lastSeen: -1}
		ok, err := s.createStream(context.Background(), 7, &tunnelpb.NewStream{MethodName: "a/b", ProtocolRevision: 99})
		if !ok || status.Code(err) != codes.Unavailable {
			t.Fatalf("closing=%v: got ok=%v err=%v", closing, ok, err)
		}
		if st, err := s.getStream(7); st != nil || err != nil {
			t.Fatalf("closing=%v: frame for refused stream 7 is a tunnel-level error: %v", closing, err)
		}
		// and a reused id is still a tunnel-level error
		if ok, err := s.createStream(context.Background(), 7, &tunnelpb.NewStream{MethodName: "a/b"}); ok || err == nil {
			t.Fatalf("closing=%v: reused id accepted: ok=%v err=%v", closing, ok, err)
		}
	}
}
