package grpctunnel

import (
	"context"
	"math"
	"testing"
)

// Stream ids must be strictly increasing; at the end of the id space the
// channel must refuse to allocate rather than wrap to a negative id.
func TestFindingC08IDWrap(t *testing.T) {
	c := &tunnelChannel{ctx: context.Background(), streams: map[int64]*tunnelClientStream{}, tunnelOpts: &tunnelOpts{},
		lastStreamID: math.MaxInt64, streamCreated: true}
	st, _, err := c.allocateStream(context.Background(), false, false, "svc/m", nil)
	if err == nil {
		t.Fatalf("allocated wrapped id %d", st.streamID)
	}
}
