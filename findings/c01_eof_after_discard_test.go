package grpctunnel

import (
	"context"
	"io"
	"testing"

	"github.com/jhump/grpctunnel/tunnelpb"
)

// raceWindowReceiver forces the schedule in which the stream context ends
// (and the watcher goroutine cancels the receiver, discarding queued frames)
// between readMsgLocked's context check and its call of dequeue.
type raceWindowReceiver struct {
	receiver[tunnelpb.ClientToServerFrame]
	inWindow func()
}

func (r *raceWindowReceiver) dequeue() (tunnelpb.ClientToServerFrame, bool) {
	if r.inWindow != nil {
		f := r.inWindow
		r.inWindow = nil
		f()
	}
	return r.receiver.dequeue()
}

// The client sent three messages and half-closed; the handler has read none.
// If the RPC is then cancelled, the handler must not be told "end of stream"
// (io.EOF) as if it had seen the complete sequence.
func TestFindingC01EOFAfterDiscard(t *testing.T) {
	ctx, cancel := context.WithCancel(context.Background())
	defer cancel()
	st := &tunnelServerStream{ctx: ctx, isClientStream: true}
	inner := newReceiver(func(tunnelpb.ClientToServerFrame) uint { return 1 }, func(uint32) {}, initialWindowSize)
	for i := 0; i < 3; i++ {
		_ = inner.accept(&tunnelpb.ClientToServer_RequestMessage{RequestMessage: &tunnelpb.MessageData{Size: 1, Data: []byte{byte(i)}}})
	}
	st.receiver = &raceWindowReceiver{receiver: inner, inWindow: func() {
		cancel()       // the RPC is cancelled / its deadline fires ...
		inner.cancel() // ... and the watcher goroutine reacts (serveStream's go func)
	}}
	st.halfClose(io.EOF) // half-close already recorded
	_, _, err := st.readMsgLocked()
	if err == io.EOF {
		t.Fatalf("handler told io.EOF although 3 queued messages were discarded")
	}
	if err == nil {
		t.Fatalf("nil error without a message")
	}
}
