package engine

import (
	"fmt"
	"regexp"
	"go/ast"
	"go/constant"
	"go/token"
	"go/types"
	"math/big"
	"sort"
	"strings"

	"golang.org/x/tools/go/ssa"
)

const maxPaths = 4000

// Exec verifies one function (with inlined callees) against its contract.
type Exec struct {
	selBlocking string // "true"/"false" while the at-clauses of a select run
	prog   *Program
	cs     *Contracts
	fn     *ssa.Function
	fname  string
	fc     *FuncContract
	decls  map[string]string // symbol -> sort (or full declare-fun text for functions)
	declOrder []string
	funs   map[string]string // uninterpreted function name -> declaration
	funOrder []string
	axioms []string
	ctr    int
	insts  []*Instance
	paths  int
	outOfReach string
	typeIDs map[string]int
	strConsts map[string]string
	entry  *State
	abstr  map[string]bool
	sweepNoPanic bool
	nopanicProps []string
	inlineDepth int
	visitedAnchors map[string]bool
	subOf map[string]subInfo
	atHits map[*Clause]int
	retVal *Val
}

type subInfo struct{ parent, lo, hi string }

func newExec(prog *Program, cs *Contracts, fn *ssa.Function) *Exec {
	e := &Exec{prog: prog, cs: cs, fn: fn, fname: FuncName(fn), decls: map[string]string{}, funs: map[string]string{},
		typeIDs: map[string]int{}, strConsts: map[string]string{}, abstr: map[string]bool{}, visitedAnchors: map[string]bool{}, subOf: map[string]subInfo{}}
	e.fc = cs.Funcs[e.fname]
	return e
}

func (e *Exec) freshName(hint string) string {
	e.ctr++
	return sym(fmt.Sprintf("%s!%d", hint, e.ctr))
}

func (e *Exec) declare(name, sort string) string {
	if _, ok := e.decls[name]; !ok {
		e.decls[name] = sort
		e.declOrder = append(e.declOrder, name)
	}
	return name
}

func (e *Exec) fresh(hint, sort string) string {
	return e.declare(e.freshName(hint), sort)
}

// fun declares an uninterpreted function and returns its name.
func (e *Exec) fun(name string, argSorts []string, res string) string {
	if _, ok := e.funs[name]; !ok {
		e.funs[name] = fmt.Sprintf("(declare-fun %s (%s) %s)", name, strings.Join(argSorts, " "), res)
		e.funOrder = append(e.funOrder, name)
	}
	return name
}

func (e *Exec) freshVal(hint string, t types.Type) Val {
	ls := shape(t)
	v := Val{Typ: t}
	for _, l := range ls {
		h := hint
		if l.Name != "" {
			h += "." + l.Name
		}
		v.T = append(v.T, e.fresh(h, l.Sort))
	}
	return v
}

func (e *Exec) zeroVal(t types.Type) Val {
	v := Val{Typ: t}
	for _, l := range shape(t) {
		v.T = append(v.T, zeroOf(l.Sort))
	}
	return v
}

var typeArgsRe = regexp.MustCompile(`\[[^\[\]]*\]`)

func (e *Exec) typeID(t types.Type) string {
	k := types.TypeString(t, nil)
	// generic instantiations and their origin share one id (bodies are verified once, generically)
	for typeArgsRe.MatchString(k) && strings.Contains(k, "grpctunnel.") {
		k2 := typeArgsRe.ReplaceAllStringFunc(k, func(m string) string {
			if m == "[]" {
				return "\x00\x01"
			}
			return ""
		})
		if k2 == k {
			break
		}
		k = k2
	}
	k = strings.ReplaceAll(k, "\x00\x01", "[]")
	id, ok := e.typeIDs[k]
	if !ok {
		// stable ids: hash-free, ordered by first use is not stable across paths of
		// different functions, so derive from the string itself.
		h := int64(7)
		for _, c := range k {
			h = (h*131 + int64(c)) % 1000000007
		}
		id = int(h) + 1000
		e.typeIDs[k] = id
	}
	return intLit(int64(id))
}

// ---------------- heap ----------------

func (e *Exec) entryArr(key string, sort string) string {
	return e.declare(sym("H0:"+key), sort)
}

func (e *Exec) curArr(st *State, key, sort string) string {
	if a, ok := st.heap[key]; ok {
		return a
	}
	if g := st.counts["heapgen"]; g > 0 && !e.immutableKey(key) {
		// the heap was havoc'd since entry: first read of this array sees the
		// arbitrary array of that havoc generation (deterministic name, so that
		// snapshots taken in the same generation agree)
		a := e.declare(sym(fmt.Sprintf("HG:%s@%d", key, g)), sort)
		st.heap[key] = a
		st.impure[key] = true
		return a
	}
	return e.entryArr(key, sort)
}

const genKey = "\x00gen"

// arrIn reads an array from a heap snapshot (old-state map).
func (e *Exec) arrIn(m map[string]string, key, sort string) string {
	if a, ok := m[key]; ok {
		return a
	}
	if g, ok := m[genKey]; ok && g != "0" && !e.immutableKey(key) {
		return e.declare(sym(fmt.Sprintf("HG:%s@%s", key, g)), sort)
	}
	return e.entryArr(key, sort)
}

// snapHeap copies the current heap as an old-state map.
func (e *Exec) snapHeap(st *State) map[string]string {
	m := make(map[string]string, len(st.heap)+1)
	for k, v := range st.heap {
		m[k] = v
	}
	m[genKey] = fmt.Sprint(st.counts["heapgen"])
	return m
}

// immutableKey: field arrays of fields declared immutable in a type contract
// (written only while the object is fresh; checked by the discipline pass).
func (e *Exec) immutableKey(k string) bool {
	if !strings.HasPrefix(k, "F:") {
		return false
	}
	rest := strings.SplitN(k[2:], "#", 2)[0]
	i := strings.Index(rest, ".")
	if i < 0 {
		return false
	}
	owner, field := rest[:i], rest[i+1:]
	if j := strings.Index(field, "."); j >= 0 {
		field = field[:j]
	}
	tc := e.typeContract(owner)
	if tc == nil {
		return false
	}
	d, ok := tc.Fields[field]
	return ok && d.Class == "immutable"
}

func (e *Exec) oldArr(st *State, key, sort string) string {
	return e.arrIn(st.old, key, sort)
}

func (e *Exec) setArr(st *State, key, sort, term string) {
	// name the new array to keep terms small
	n := e.fresh("H:"+key, sort)
	st.assume(tEq(n, term))
	st.heap[key] = n
}

func leafKey(key string, l Leaf) string {
	if l.Name == "" {
		return key
	}
	return subKey(key, l.Name)
}

// subKey extends a heap key by a component name: "E:T" -> "E:T#f" -> "E:T#f.g".
func subKey(key, name string) string {
	if strings.Contains(key, "#") {
		return key + "." + name
	}
	return key + "#" + name
}

func locSort(loc *Loc, l Leaf) string {
	if loc.Idx != "" {
		return arr(SInt, arr(SBV(64), l.Sort))
	}
	return arr(SInt, l.Sort)
}

func (e *Exec) loadFrom(st *State, loc *Loc, useOld bool) Val {
	if loc.Local {
		if cv, ok := st.cells[loc.Ref]; ok {
			cv.Typ = loc.Typ
			return cv
		}
	}
	v := Val{Typ: loc.Typ}
	for _, l := range shape(loc.Typ) {
		k := leafKey(loc.Key, l)
		var a string
		if useOld {
			a = e.oldArr(st, k, locSort(loc, l))
		} else {
			a = e.curArr(st, k, locSort(loc, l))
		}
		var term string
		if loc.Idx != "" {
			term = app("select", app("select", a, loc.Ref), loc.Idx)
		} else {
			term = app("select", a, loc.Ref)
		}
		v.T = append(v.T, term)
		// references found in the entry heap predate every allocation of this path
		if !useOld && l.Sort == SInt && refLeaf(loc.Typ, l) && !strings.Contains(term, "|q:") {
			// any reference found in the heap is older than every allocation this path makes later
			if a == e.entryArrName(k) && !st.impure[k] {
				st.assumeOnce(app("<", term, "BASE"))
			} else if len(st.fresh) <= 40 {
				alts := []string{app("<", term, "BASE")}
				for _, f := range st.fresh {
					alts = append(alts, tEq(term, f))
				}
				st.assumeOnce(tOr(alts...))
			}
		}
	}
	if _, isSlice := under(loc.Typ).(*types.Slice); isSlice && len(v.T) == 4 && !useOld && !strings.Contains(v.T[2], "|q:") {
		st.assumeOnce(app("bvule", v.T[2], bvLitI(1<<40, 64)))
		st.assumeOnce(app("bvule", v.T[2], v.T[3]))
		st.assumeOnce(app("bvule", v.T[3], bvLitI(1<<41, 64)))
		st.assumeOnce(app("bvule", v.T[1], bvLitI(1<<41, 64)))
	}
	if len(v.T) == 2 && isProtoOneof(loc.Typ) && !useOld {
		st.assume(tImp(tNot(tEq(v.T[0], "0")), tNot(tEq(v.T[1], "0"))))
	}
	// protobuf well-formedness: the message inside a set oneof wrapper is non-nil
	if strings.HasPrefix(loc.Owner, "tunnelpb.") && strings.Contains(loc.Owner, "_") && len(v.T) == 1 {
		if _, isPtr := loc.Typ.Underlying().(*types.Pointer); isPtr && !useOld {
			st.assume(tImp(tNot(tEq(loc.Ref, "0")), tNot(tEq(v.T[0], "0"))))
		}
	}
	if sig, ok := loc.Typ.Underlying().(*types.Signature); ok && loc.Owner != "" {
		_ = sig
		v.Prov = "(*" + loc.Owner + ")." + loc.Field
	} else if loc.Owner != "" {
		v.Prov = "field:" + loc.Owner + "." + loc.Field
	}
	return v
}

func (e *Exec) storeTo(st *State, loc *Loc, v Val) {
	ls := shape(loc.Typ)
	if len(v.T) != len(ls) {
		st.note("store shape mismatch at %s (%d vs %d leaves): havoc", loc.Key, len(v.T), len(ls))
		v = e.freshVal("havoc", loc.Typ)
	}
	if loc.Local {
		if _, ok := st.cells[loc.Ref]; ok {
			st.cells[loc.Ref] = v
			return
		}
	}
	for i, l := range ls {
		k := leafKey(loc.Key, l)
		s := locSort(loc, l)
		a := e.curArr(st, k, s)
		st.wrote(k, loc.Ref)
		if loc.Idx != "" {
			st.counts["elemgen:"+strings.TrimPrefix(strings.SplitN(loc.Key, "#", 2)[0], "E:")]++
			e.setArr(st, k, s, app("store", a, loc.Ref, app("store", app("select", a, loc.Ref), loc.Idx, v.T[i])))
		} else {
			e.setArr(st, k, s, app("store", a, loc.Ref, v.T[i]))
		}
	}
}

// localKey lets us stash Go-side provenance for values stored in local cells.
type localKey struct{ ref string }

func (localKey) Name() string                  { return "" }
func (localKey) String() string                { return "" }
func (localKey) Type() types.Type              { return nil }
func (localKey) Parent() *ssa.Function         { return nil }
func (localKey) Referrers() *[]ssa.Instruction { return nil }
func (localKey) Pos() token.Pos                { return token.NoPos }

// havocObj replaces the contents of field arrays at one object by fresh values.
func (e *Exec) havocLoc(st *State, loc *Loc, rebaseOld bool) {
	if loc.Local {
		if _, ok := st.cells[loc.Ref]; ok {
			st.cells[loc.Ref] = e.freshVal("hv:cell", loc.Typ)
			return
		}
	}
	for _, l := range shape(loc.Typ) {
		k := leafKey(loc.Key, l)
		s := locSort(loc, l)
		a := e.curArr(st, k, s)
		if !rebaseOld {
			st.wrote(k, loc.Ref)
		}
		var nv string
		if loc.Idx != "" {
			nv = app("store", a, loc.Ref, app("store", app("select", a, loc.Ref), loc.Idx, e.fresh("hv:"+k, l.Sort)))
		} else {
			nv = app("store", a, loc.Ref, e.fresh("hv:"+k, l.Sort))
		}
		e.setArr(st, k, s, nv)
		st.impure[k] = true
		if rebaseOld {
			st.old[k] = st.heap[k]
		}
	}
}

func (e *Exec) havocKey(st *State, key, sort string) {
	st.heap[key] = e.fresh("HV:"+key, sort)
	st.impure[key] = true
}

// havocAll forgets the whole heap (call to an unspecified callee).
func (e *Exec) havocAll(st *State, why string) {
	// monotone shared state: whatever happened, closed channels stay closed etc.
	mono := map[string]string{}
	for _, k := range monotoneKeys {
		_, inHeap := st.heap[k]
		_, declared := e.decls[e.entryArrName(k)]
		if inHeap || declared {
			mono[k] = e.curArr(st, k, arr(SInt, SBool))
		}
	}
	for _, k := range sortedKeys(st.heap) {
		if strings.HasPrefix(k, "L:") || e.immutableKey(k) { // immutable fields cannot change
			continue
		}
		delete(st.heap, k)
	}
	defer func() {
		for _, k := range monotoneKeys {
			old, ok := mono[k]
			if !ok {
				continue
			}
			nw := e.fresh("T:"+k, arr(SInt, SBool))
			x := e.freshName("x")
			st.assume(fmt.Sprintf("(forall ((%s Int)) (! (=> (select %s %s) (select %s %s)) :pattern ((select %s %s))))", x, old, x, nw, x, nw, x))
			st.heap[k] = nw
		}
	}()
	// keys never touched so far would read the entry array; bump a generation so
	// that later first reads see a fresh array instead.
	e.ctr++
	st.counts["heapgen"] = e.ctr
	if st.counts["acquired"] == 0 && len(st.held) == 0 {
		// an unbounded effect before any monitor entry: "old" (the linearisation
		// pre-state) is the state after it
		for k := range st.old {
			delete(st.old, k)
		}
		st.old[genKey] = fmt.Sprint(e.ctr)
	}
	st.wrote("*", "*")
	st.note("heap havoc: %s", why)
}

// ---------------- locations ----------------

func fieldKey(owner, field string) string { return "F:" + owner + "." + field }

func (e *Exec) fieldLoc(st *State, base Val, structT types.Type, idx int) (Val, bool) {
	su := structT.Underlying().(*types.Struct)
	f := su.Field(idx)
	owner := namedKey(structT)
	ref := base.T[0]
	if isStruct(f.Type()) && !isOpaqueStruct(f.Type()) {
		// embedded-by-value struct: address is an injected sub-object reference
		fn := e.fun(sym("sub."+owner+"."+f.Name()), []string{SInt}, SInt)
		r := app(fn, ref)
		if !strings.Contains(r, "|q:") {
			st.assumeOnce(tImp(tNot(tEq(ref, "0")), app(">", r, "0")))
		}
		v := Val{T: []string{r}, Typ: types.NewPointer(f.Type()), Sub: &SubObj{Owner: owner, Path: f.Name(), Obj: ref}}
		return v, true
	}
	if isStruct(f.Type()) {
		fn := e.fun(sym("sub."+owner+"."+f.Name()), []string{SInt}, SInt)
		r := app(fn, ref)
		if !strings.Contains(r, "|q:") {
			st.assumeOnce(tImp(tNot(tEq(ref, "0")), app(">", r, "0")))
		}
		return Val{T: []string{r}, Typ: types.NewPointer(f.Type()), Sub: &SubObj{Owner: owner, Path: f.Name(), Obj: ref}}, true
	}
	loc := &Loc{Key: fieldKey(owner, f.Name()), Typ: f.Type(), Ref: ref, Owner: owner, Field: f.Name()}
	fn := e.fun(sym("faddr."+owner+"."+f.Name()), []string{SInt}, SInt)
	return Val{T: []string{app(fn, ref)}, Typ: types.NewPointer(f.Type()), Loc: loc}, true
}

func isOpaqueStruct(t types.Type) bool {
	n, ok := t.(*types.Named)
	if !ok || n.Obj().Pkg() == nil {
		return false
	}
	switch n.Obj().Pkg().Path() {
	case "sync", "sync/atomic":
		return true
	}
	return false
}

func elemKey(t types.Type) string { return "E:" + typeKey(t) }
func cellKey(t types.Type) string { return "C:" + typeKey(t) }

// derefLoc gives the location a pointer value designates.
func (e *Exec) derefLoc(st *State, p Val, pointee types.Type) *Loc {
	if p.Loc != nil {
		return p.Loc
	}
	return &Loc{Key: cellKey(pointee), Typ: pointee, Ref: p.T[0]}
}

// ---------------- obligations ----------------

func (e *Exec) oblige(st *State, kind, anchor string, props []string, clause string, goal string, pos token.Pos) {
	if goal == "true" {
		// still count it: trivially discharged instances keep the obligation visible
	}
	name := e.fname + "/" + kind + "/" + anchor
	in := &Instance{Name: name, Kind: kind, Func: e.fname, Props: props, Clause: clause,
		Assumes: append([]string(nil), st.assumes...), Goal: goal, Notes: append([]string(nil), st.notes...), Path: append([]string(nil), st.path...)}
	if pos.IsValid() {
		in.Pos = e.prog.Fset.Position(pos)
	}
	if e.fc != nil && len(e.fc.Witness) > 0 && goal != "true" {
		in.Witness = map[string][]string{}
		for _, w := range e.fc.Witness {
			ctx := &evalCtx{st: st, fr: st.frames[0], scope: map[string]Val{}, entryScope: e.entryParams(), paramsFirst: true, inOld: true}
			if v, err := e.evalTop(ctx, w.E, nil); err == nil && !strings.Contains(strings.Join(v.T, " "), "|q:") {
				in.Witness[w.Name] = v.T
			}
		}
	}
	e.insts = append(e.insts, in)
}

func (e *Exec) cover(st *State, anchor string, props []string, clause string) {
	name := e.fname + "/cover/" + anchor
	e.insts = append(e.insts, &Instance{Name: name, Kind: "cover", Func: e.fname, Props: props, Clause: clause,
		Assumes: append([]string(nil), st.assumes...), Goal: "true", Cover: true})
}

// ---------------- constants ----------------

func (e *Exec) constVal(st *State, c *ssa.Const) Val {
	t := c.Type()
	if c.Value == nil {
		return e.zeroVal(t)
	}
	switch u := under(t).(type) {
	case *types.Basic:
		switch {
		case u.Info()&types.IsBoolean != 0:
			if constant.BoolVal(c.Value) {
				return Val{T: []string{"true"}, Typ: t}
			}
			return Val{T: []string{"false"}, Typ: t}
		case u.Info()&types.IsInteger != 0:
			bi, _ := new(big.Int).SetString(c.Value.ExactString(), 10)
			if bi == nil {
				bi = big.NewInt(0)
			}
			return Val{T: []string{bvLit(bi, intWidth(u))}, Typ: t}
		case u.Info()&types.IsString != 0:
			return Val{T: []string{e.strConst(st, constant.StringVal(c.Value))}, Typ: t}
		}
	}
	st.note("unsupported constant %s", c)
	return e.freshVal("const", t)
}

// strConst returns the content id of a string literal, with its length and
// (for short strings) characters axiomatised.
func (e *Exec) strConst(st *State, s string) string {
	if id, ok := e.strConsts[s]; ok {
		return id
	}
	h := s
	if len(h) > 24 {
		h = h[:24] + "~"
	}
	id := e.fresh("str:"+h, SInt)
	e.strConsts[s] = id
	e.axioms = append(e.axioms, tEq(app(e.slen(), id), bvLitI(int64(len(s)), 64)))
	e.axioms = append(e.axioms, app(">", id, "0"))
	if len(s) <= 32 {
		for i := 0; i < len(s); i++ {
			e.axioms = append(e.axioms, tEq(app(e.sat(), id, bvLitI(int64(i), 64)), bvLitI(int64(s[i]), 8)))
		}
	}
	// distinct literals have distinct ids when their contents differ
	for o, oid := range e.strConsts {
		if o != s {
			e.axioms = append(e.axioms, tNot(tEq(id, oid)))
		}
	}
	return id
}

func (e *Exec) slen() string {
	if _, ok := e.funs["s_len"]; !ok {
		e.fun("s_len", []string{SInt}, SBV(64))
		// a string's length is non-negative (and below 2^40, like every length)
		e.addAxiom("(forall ((s Int)) (! (and (bvsge (s_len s) (_ bv0 64)) (bvslt (s_len s) (_ bv1099511627776 64))) :pattern ((s_len s))))")
	}
	return "s_len"
}
func (e *Exec) sat() string  { return e.fun("s_at", []string{SInt, SBV(64)}, SBV(8)) }
func (e *Exec) ssub() string { return e.fun("s_sub", []string{SInt, SBV(64), SBV(64)}, SInt) }

func (e *Exec) strLen(s string) string {
	if si, ok := e.subOf[s]; ok {
		return app("bvsub", si.hi, si.lo)
	}
	return app(e.slen(), s)
}

func (e *Exec) strAt(s, i string) string {
	if si, ok := e.subOf[s]; ok {
		return e.strAt(si.parent, app("bvadd", si.lo, i))
	}
	return app(e.sat(), s, i)
}

func (e *Exec) strSub(s, lo, hi string) string {
	if lo == bvLitI(0, 64) && hi == e.strLen(s) {
		return s
	}
	if si, ok := e.subOf[s]; ok {
		return e.strSub(si.parent, app("bvadd", si.lo, lo), app("bvadd", si.lo, hi))
	}
	t := app(e.ssub(), s, lo, hi)
	e.subOf[t] = subInfo{s, lo, hi}
	return t
}

// ---------------- value lookup ----------------

func (e *Exec) val(st *State, v ssa.Value) Val {
	fr := st.top()
	if x, ok := fr.env[v]; ok {
		return x
	}
	switch v := v.(type) {
	case *ssa.Const:
		return e.constVal(st, v)
	case *ssa.Global:
		return e.globalAddr(st, v)
	case *ssa.Function:
		return Val{T: []string{e.funcRef(v)}, Typ: v.Type(), Clo: &Closure{Fn: v}}
	case *ssa.Builtin:
		return Val{T: []string{"0"}, Typ: v.Type()}
	case *ssa.FreeVar:
		if x, ok := fr.freeV[v.Name()]; ok {
			return x
		}
	case *ssa.Parameter:
		if x, ok := fr.params[v.Name()]; ok {
			return x
		}
	}
	st.note("use of unmodelled value %s (%T)", v.Name(), v)
	x := e.freshVal("unk:"+v.Name(), v.Type())
	fr.env[v] = x
	return x
}

func (e *Exec) funcRef(f *ssa.Function) string {
	n := e.declare(sym("fn:"+FuncName(f)), SInt)
	e.addAxiom(app(">", n, "0"))
	return n
}

func (e *Exec) globalAddr(st *State, g *ssa.Global) Val {
	name := g.Name()
	if g.Pkg != nil && g.Pkg.Pkg.Path() != pkgPath {
		name = g.Pkg.Pkg.Name() + "." + name
	}
	pt := g.Type().(*types.Pointer).Elem()
	loc := &Loc{Key: "G:" + name, Typ: pt, Ref: "0"}
	return Val{T: []string{e.declare(sym("gaddr:"+name), SInt)}, Typ: g.Type(), Loc: loc}
}

// ---------------- running ----------------

type loopInfo struct {
	header *ssa.BasicBlock
	blocks map[*ssa.BasicBlock]bool
	ord    int
}

func (e *Exec) analyzeLoops(fn *ssa.Function) map[*ssa.BasicBlock]*loopInfo {
	// natural loops via back edges (target dominates source)
	loops := map[*ssa.BasicBlock]*loopInfo{}
	for _, b := range fn.Blocks {
		for _, s := range b.Succs {
			if s.Dominates(b) {
				li := loops[s]
				if li == nil {
					li = &loopInfo{header: s, blocks: map[*ssa.BasicBlock]bool{s: true}}
					loops[s] = li
				}
				// collect body: nodes that reach b without passing header
				var stack []*ssa.BasicBlock
				if !li.blocks[b] {
					li.blocks[b] = true
					stack = append(stack, b)
				}
				for len(stack) > 0 {
					x := stack[len(stack)-1]
					stack = stack[:len(stack)-1]
					for _, p := range x.Preds {
						if !li.blocks[p] {
							li.blocks[p] = true
							stack = append(stack, p)
						}
					}
				}
			}
		}
	}
	// ordinals by source position of the header's first positioned instruction
	var hs []*ssa.BasicBlock
	for h := range loops {
		hs = append(hs, h)
	}
	sort.Slice(hs, func(i, j int) bool { return blockPos(hs[i]) < blockPos(hs[j]) })
	for i, h := range hs {
		loops[h].ord = i + 1
	}
	return loops
}

func blockPos(b *ssa.BasicBlock) token.Pos {
	best := token.Pos(0)
	// a loop header's own instructions can lack positions; use the smallest
	// position in the block, else its index.
	for _, in := range b.Instrs {
		if p := in.Pos(); p.IsValid() && (best == 0 || p < best) {
			best = p
		}
		if d, ok := in.(*ssa.DebugRef); ok {
			if p := d.Expr.Pos(); p.IsValid() && (best == 0 || p < best) {
				best = p
			}
		}
	}
	if best == 0 {
		return token.Pos(1<<30 + b.Index)
	}
	return best
}

// computeOrdinals numbers anchor instructions in source order.
func computeOrdinals(fn *ssa.Function) map[ssa.Instruction]anchorID {
	type item struct {
		in  ssa.Instruction
		id  anchorID
		pos token.Pos
		seq int
	}
	var items []item
	seq := 0
	for _, b := range fn.Blocks {
		if fn.Recover != nil && b == fn.Recover {
			continue
		}
		for _, in := range b.Instrs {
			seq++
			var id anchorID
			switch x := in.(type) {
			case *ssa.Call:
				id = anchorID{kind: "call", target: calleeShort(&x.Call)}
			case *ssa.Defer:
				id = anchorID{kind: "call", target: calleeShort(&x.Call)}
			case *ssa.Go:
				id = anchorID{kind: "go", target: ""}
			case *ssa.Return:
				id = anchorID{kind: "return"}
			case *ssa.Select:
				id = anchorID{kind: "select"}
			case *ssa.Send:
				id = anchorID{kind: "chansend"}
			case *ssa.UnOp:
				if x.Op == token.ARROW {
					id = anchorID{kind: "recv"}
				} else {
					continue
				}
			case *ssa.Store:
				if fa, ok := x.Addr.(*ssa.FieldAddr); ok {
					st := fa.X.Type().Underlying().(*types.Pointer).Elem().Underlying().(*types.Struct)
					id = anchorID{kind: "store", target: st.Field(fa.Field).Name()}
				} else if ld, ok := x.Addr.(*ssa.UnOp); ok && ld.Op == token.MUL {
					// *p.f = v: a store through a pointer held in a field
					fa, ok := ld.X.(*ssa.FieldAddr)
					if !ok {
						continue
					}
					st := fa.X.Type().Underlying().(*types.Pointer).Elem().Underlying().(*types.Struct)
					id = anchorID{kind: "store", target: "deref." + st.Field(fa.Field).Name()}
				} else {
					continue
				}
			default:
				continue
			}
			if id.kind == "call" && id.target == "close" {
				var cc *ssa.CallCommon
				switch y := in.(type) {
				case *ssa.Call:
					cc = &y.Call
				case *ssa.Defer:
					cc = &y.Call
				}
				if cc != nil {
					if _, isB := cc.Value.(*ssa.Builtin); isB && !cc.IsInvoke() {
						id = anchorID{kind: "close"}
					}
				}
			}
			items = append(items, item{in, id, in.Pos(), seq})
		}
	}
	sort.SliceStable(items, func(i, j int) bool {
		pi, pj := items[i].pos, items[j].pos
		if pi.IsValid() && pj.IsValid() && pi != pj {
			return pi < pj
		}
		return items[i].seq < items[j].seq
	})
	cnt := map[string]int{}
	out := map[ssa.Instruction]anchorID{}
	for _, it := range items {
		k := it.id.kind + ":" + it.id.target
		cnt[k]++
		it.id.ord = cnt[k]
		out[it.in] = it.id
	}
	return out
}

func calleeShort(c *ssa.CallCommon) string {
	if c.IsInvoke() {
		return c.Method.Name()
	}
	switch v := c.Value.(type) {
	case *ssa.Function:
		n := v.Name()
		if i := strings.Index(n, "["); i >= 0 {
			n = n[:i]
		}
		return n
	case *ssa.Builtin:
		return v.Name()
	case *ssa.MakeClosure:
		return v.Fn.(*ssa.Function).Name()
	case *ssa.UnOp: // load of a func-typed field or variable
		if fa, ok := v.X.(*ssa.FieldAddr); ok {
			st := fa.X.Type().Underlying().(*types.Pointer).Elem().Underlying().(*types.Struct)
			return st.Field(fa.Field).Name()
		}
	case *ssa.Field:
		st := v.X.Type().Underlying().(*types.Struct)
		return st.Field(v.Field).Name()
	case *ssa.Parameter:
		return v.Name()
	}
	return "?"
}

func (e *Exec) newFrame(fn *ssa.Function) *Frame {
	fr := &Frame{fn: fn, env: map[ssa.Value]Val{}, vars: map[string]Val{}, varAddr: map[string]*Loc{},
		params: map[string]Val{}, freeV: map[string]Val{}, entered: map[*ssa.BasicBlock]bool{}}
	fr.ordinals = computeOrdinals(fn)
	fr.loopOrd = map[*ssa.BasicBlock]int{}
	return fr
}

// Run executes the function from a symbolic entry state and collects obligations.
func (e *Exec) Run() {
	defer func() {
		if r := recover(); r != nil {
			if s, ok := r.(reachErr); ok {
				e.outOfReach = string(s)
				return
			}
			panic(r)
		}
	}()
	st := &State{cells: map[string]Val{}, snaps: map[string]map[string]string{}, heap: map[string]string{}, old: map[string]string{}, impure: map[string]bool{}, ghost: map[string]Val{},
		calls: map[string]callRecord{}, counts: map[string]int{}, front: map[string][2]string{}, everHeld: map[string]bool{}, casWon: map[string]bool{}}
	fr := e.newFrame(e.fn)
	st.frames = []*Frame{fr}
	base := e.declare("BASE", SInt)
	st.assume(app(">", base, "0"))
	for i, p := range e.fn.Params {
		v := e.freshVal("p:"+p.Name(), p.Type())
		e.assumeWellFormed(st, v, p.Type(), true)
		if i == 0 && e.fn.Signature.Recv() != nil {
			if _, isPtr := p.Type().Underlying().(*types.Pointer); isPtr {
				st.assume(tNot(tEq(v.T[0], "0"))) // proved at call sites (nilrecv)
			}
		}
		e.assumeTypeWF(st, v, p.Type())
		fr.params[p.Name()] = v
		fr.params[fmt.Sprintf("param%d", i)] = v // positional alias: survives a renamed parameter
		fr.env[p] = v
	}
	for _, fv := range e.fn.FreeVars {
		v := e.freshVal("fv:"+fv.Name(), fv.Type())
		e.assumeWellFormed(st, v, fv.Type(), true)
		if _, isPtr := fv.Type().Underlying().(*types.Pointer); isPtr {
			st.assume(tNot(tEq(v.T[0], "0"))) // a captured variable's cell always exists
		}
		// a free variable is a pointer to the captured variable's cell
		fr.freeV[fv.Name()] = v
		fr.env[fv] = v
	}
	e.entry = st.clone()
	e.initContractState(st)
	e.execBlock(st, e.fn.Blocks[0], nil)
}

type reachErr string

// refLeaf: the leaf holds an object reference (not a string id, tag or ghost value).
func refLeaf(t types.Type, l Leaf) bool {
	switch under(t).(type) {
	case *types.Pointer, *types.Map, *types.Chan, *types.Signature:
		return true
	case *types.Interface:
		return l.Name == "val" && !isTypeParam(t)
	case *types.Slice:
		return l.Name == "base"
	}
	return false
}

// isProtoOneof: the generated oneof interface types of tunnelpb (a set member is a non-nil wrapper).
func isProtoOneof(t types.Type) bool {
	n, ok := t.(*types.Named)
	if !ok {
		if a, ok := t.(*types.Alias); ok {
			return isProtoOneof(types.Unalias(a))
		}
		return false
	}
	return n.Obj().Pkg() != nil && n.Obj().Pkg().Name() == "tunnelpb" && types.IsInterface(n)
}

// assumeTypeWF: immutable well-formedness facts of an object ("wf" invariants
// of its type contract): established by constructors, never invalidated
// because the fields involved are immutable (checked by the discipline pass).
func (e *Exec) assumeTypeWF(st *State, v Val, t types.Type) {
	pt, ok := t.Underlying().(*types.Pointer)
	if !ok || !isStruct(pt.Elem()) || len(v.T) != 1 {
		return
	}
	owner := namedKey(pt.Elem())
	tc := e.typeContract(owner)
	if tc == nil {
		return
	}
	for _, c := range tc.Invariants {
		if c.Lock != "wf" && c.Lock != "api" {
			continue
		}
		ov := Val{T: v.T, Typ: t}
		ctx := &evalCtx{st: st, self: &ov, selfT: pt.Elem(), scope: map[string]Val{}}
		g, err := e.evalBool(ctx, c.Expr)
		if err != nil {
			e.contractError(&FuncContract{Name: "type " + owner, Line: c.Line}, c, err)
			continue
		}
		st.assume(tImp(tNot(tEq(v.T[0], "0")), g))
	}
}

// assumeWellFormed adds the type invariants of a symbolic input value.
func (e *Exec) assumeWellFormed(st *State, v Val, t types.Type, isParam bool) {
	switch under(t).(type) {
	case *types.Slice:
		// 0 <= len <= cap, offsets small enough that arithmetic cannot wrap
		lim := bvLitI(1<<40, 64)
		st.assume(app("bvule", v.T[2], v.T[3]))
		st.assume(app("bvule", v.T[3], lim))
		st.assume(app("bvule", v.T[1], lim))
		st.assume(tImp(tEq(v.T[0], "0"), tEq(v.T[3], bvLitI(0, 64))))
		st.assume(app(">=", v.T[0], "0"))
		st.assume(app("<", v.T[0], "BASE"))
	case *types.Pointer, *types.Map, *types.Chan, *types.Signature:
		st.assume(app(">=", v.T[0], "0"))
		st.assume(app("<", v.T[0], "BASE"))
	case *types.Interface:
		if len(v.T) == 2 {
			st.assume(app(">=", v.T[0], "0"))
			st.assume(tImp(tEq(v.T[0], "0"), tEq(v.T[1], "0")))
			st.assume(app("<", v.T[1], "BASE"))
			if isProtoOneof(t) {
				st.assume(tImp(tNot(tEq(v.T[0], "0")), tNot(tEq(v.T[1], "0"))))
			}
		}
	case *types.Basic:
		if isStringType(t) {
			st.assume(app("bvule", e.strLen(v.T[0]), bvLitI(1<<40, 64)))
		}
	}
}

func (e *Exec) execBlock(st *State, b *ssa.BasicBlock, prev *ssa.BasicBlock) {
	fr := st.top()
	loops := e.loopsOf(fr.fn)
	if li := loops[b]; li != nil {
		if !e.enterLoop(st, b, prev, li) {
			return
		}
		fr = st.top()
	}
	st.path = append(st.path, fmt.Sprintf("%s.%d", fr.fn.Name(), b.Index))
	isHeader := loops[b] != nil
	for i, in := range b.Instrs {
		if st.dead {
			return
		}
		if len(fr.lazy) > 0 {
			fr.resolveLazy()
		}
		switch x := in.(type) {
		case *ssa.Phi:
			if isHeader {
				continue // bound (and havoc'd) by enterLoop
			}
			for j, p := range b.Preds {
				if p == prev {
					fr.env[x] = e.val(st, x.Edges[j])
					if x.Comment != "" {
						fr.vars[x.Comment] = fr.env[x]
					}
				}
			}
		case *ssa.If:
			c := e.val(st, x.Cond).T[0]
			if c == "true" {
				e.execBlock(st, b.Succs[0], b)
				return
			}
			if c == "false" {
				e.execBlock(st, b.Succs[1], b)
				return
			}
			e.countPath()
			s2 := st.clone()
			st.assume(c)
			e.execBlock(st, b.Succs[0], b)
			s2.assume(tNot(c))
			e.execBlock(s2, b.Succs[1], b)
			return
		case *ssa.Jump:
			e.execBlock(st, b.Succs[0], b)
			return
		case *ssa.Return:
			e.doReturn(st, x)
			return
		case *ssa.Panic:
			e.doPanic(st, x)
			return
		default:
			// instructions that may fork return true when they have taken over control
			if e.step(st, in, b, i) {
				return
			}
		}
	}
}

func (e *Exec) countPath() {
	e.paths++
	if e.paths > maxPaths {
		panic(reachErr(fmt.Sprintf("path cap %d exceeded", maxPaths)))
	}
}

var loopCache = map[*ssa.Function]map[*ssa.BasicBlock]*loopInfo{}

func (e *Exec) loopsOf(fn *ssa.Function) map[*ssa.BasicBlock]*loopInfo {
	if l, ok := loopCache[fn]; ok {
		return l
	}
	l := e.analyzeLoops(fn)
	loopCache[fn] = l
	return l
}

// continueAfter resumes execution of block b after instruction index i.
func (e *Exec) continueAfter(st *State, b *ssa.BasicBlock, i int) {
	fr := st.top()
	for j := i + 1; j < len(b.Instrs); j++ {
		if st.dead {
			return
		}
		in := b.Instrs[j]
		switch x := in.(type) {
		case *ssa.If:
			c := e.val(st, x.Cond).T[0]
			if c == "true" {
				e.execBlock(st, b.Succs[0], b)
				return
			}
			if c == "false" {
				e.execBlock(st, b.Succs[1], b)
				return
			}
			e.countPath()
			s2 := st.clone()
			st.assume(c)
			e.execBlock(st, b.Succs[0], b)
			s2.assume(tNot(c))
			e.execBlock(s2, b.Succs[1], b)
			return
		case *ssa.Jump:
			e.execBlock(st, b.Succs[0], b)
			return
		case *ssa.Return:
			e.doReturn(st, x)
			return
		case *ssa.Panic:
			e.doPanic(st, x)
			return
		default:
			_ = fr
			if e.step(st, in, b, j) {
				return
			}
		}
	}
}

func (e *Exec) doPanic(st *State, x *ssa.Panic) {
	// the synthetic "blocking select matched no case" panic is unreachable by construction
	if mi, ok := x.X.(*ssa.MakeInterface); ok {
		if c, ok := mi.X.(*ssa.Const); ok && c.Value != nil && c.Value.Kind() == constant.String &&
			strings.HasPrefix(constant.StringVal(c.Value), "blocking select matched no case") {
			return
		}
	}
	fr := st.top()
	if e.wantNoPanic(fr) {
		e.oblige(st, "nopanic", fmt.Sprintf("panic@%s", e.relPos(x.Pos())), e.nopanicProps, "explicit panic is unreachable", "false", x.Pos())
	}
}

func (e *Exec) relPos(p token.Pos) string {
	if !p.IsValid() {
		return "?"
	}
	pos := e.prog.Fset.Position(p)
	return fmt.Sprintf("L%d", pos.Line)
}

func (e *Exec) wantNoPanic(fr *Frame) bool {
	return e.sweepNoPanic || (e.fc != nil && e.fc.HasNoPanic)
}

// nopanic emits a no-panic obligation named by instruction kind and ordinal.
func (e *Exec) nopanic(st *State, what string, in ssa.Instruction, goal string) {
	fr := st.top()
	if !e.wantNoPanic(fr) {
		// still keep path consistent: after the check the condition holds
		st.assume(goal)
		return
	}
	if e.fc != nil && len(e.fc.NoPanicKinds) > 0 && !e.sweepNoPanic {
		listed := false
		for _, k := range e.fc.NoPanicKinds {
			listed = listed || k == what
		}
		if !listed {
			st.note("no-panic kind %s not claimed for this function (API precondition): assumed", what)
			st.assume(goal)
			return
		}
	}
	if goal != "true" {
		pos := in.Pos()
		anchor := what + "@" + e.srcAnchor(fr, in)
		props := e.nopanicProps
		if (what == "sendclosed" || what == "doubleclose" || what == "closenil" || what == "nilmap") && len(props) > 0 && !contains(props, "C15") {
			// panics of channel operations and of writes to a map that a concurrent
			// close may have released are what concurrent use provokes: also part of C15
			props = append(append([]string(nil), props...), "C15")
		}
		e.oblige(st, "nopanic", anchor, props, what, goal, pos)
	}
	st.assume(goal)
}

// srcAnchor names an instruction by enclosing function and a per-kind ordinal
// in source order, so that names survive unrelated edits.
func (e *Exec) srcAnchor(fr *Frame, in ssa.Instruction) string {
	ord := 0
	kind := fmt.Sprintf("%T", in)
	var all []ssa.Instruction
	for _, b := range fr.fn.Blocks {
		for _, x := range b.Instrs {
			if fmt.Sprintf("%T", x) == kind {
				all = append(all, x)
			}
		}
	}
	sort.SliceStable(all, func(i, j int) bool { return all[i].Pos() < all[j].Pos() })
	for i, x := range all {
		if x == in {
			ord = i + 1
		}
	}
	pre := ""
	if fr.fn != e.fn {
		pre = FuncName(fr.fn) + ":"
	}
	return fmt.Sprintf("%s#%d", pre, ord)
}

// ---------------- return ----------------

func (e *Exec) doReturn(st *State, r *ssa.Return) {
	fr := st.top()
	var res Val
	if len(r.Results) == 1 {
		res = e.val(st, r.Results[0])
	} else {
		for _, x := range r.Results {
			v := e.val(st, x)
			res.T = append(res.T, v.T...)
		}
	}
	if fr.inlined {
		k := fr.callSiteRet
		st.frames = st.frames[:len(st.frames)-1]
		k(st, res)
		return
	}
	e.atReturn(st, r, res)
}

// identName extracts the identifier a DebugRef describes.
func identName(d *ssa.DebugRef) string {
	if id, ok := d.Expr.(*ast.Ident); ok {
		// only local variables and parameters: field selectors also produce
		// DebugRefs for their Sel identifier, which must not shadow variables
		if v, ok := d.Object().(*types.Var); ok && !v.IsField() {
			return id.Name
		}
	}
	return ""
}

// singleValueOf: when every non-defining reference to the variable a
// defining DebugRef describes names one and the same SSA value, that value.
func singleValueOf(d *ssa.DebugRef) ssa.Value {
	obj := d.Object()
	id, ok := d.Expr.(*ast.Ident)
	if !ok || obj == nil || id.Pos() != obj.Pos() {
		return nil
	}
	if _, isConst := d.X.(*ssa.Const); !isConst || d.IsAddr {
		return nil
	}
	var single ssa.Value
	for _, b := range d.Parent().Blocks {
		for _, in := range b.Instrs {
			o, ok := in.(*ssa.DebugRef)
			if !ok || o == d || o.Object() != obj {
				continue
			}
			if o.IsAddr {
				return nil
			}
			if single != nil && o.X != single {
				return nil
			}
			single = o.X
		}
	}
	if _, isConst := single.(*ssa.Const); isConst {
		return nil
	}
	return single
}
