package engine

import (
	"fmt"
	"go/types"
	"strings"

	"golang.org/x/tools/go/ssa"
)

// ---------------- monitors ----------------

func (e *Exec) typeContract(owner string) *TypeContract { return e.cs.Types[owner] }

// guardedFields lists the fields of owner guarded by lock field.
func (e *Exec) guardedFields(owner, lock string) []string {
	tc := e.typeContract(owner)
	if tc == nil {
		return nil
	}
	var out []string
	for _, f := range sortedKeys(tc.Fields) {
		d := tc.Fields[f]
		if d.Class == "guarded_by" {
			for _, g := range strings.FieldsFunc(d.Arg, func(r rune) bool { return r == '&' || r == '|' || r == ' ' || r == ',' }) {
				if g == lock {
					out = append(out, f)
				}
			}
		}
	}
	return out
}

func (e *Exec) ownerType(owner string) types.Type {
	if o := e.prog.Pkg.Types.Scope().Lookup(owner); o != nil {
		return o.Type()
	}
	return nil
}

func (e *Exec) objVal(owner, obj string) (Val, types.Type) {
	t := e.ownerType(owner)
	if t == nil {
		return Val{}, nil
	}
	return Val{T: []string{obj}, Typ: types.NewPointer(t)}, t
}

// monitorInterference: other threads may have changed the guarded state
// while the lock was free: havoc it and assume the monitor invariant.
func (e *Exec) monitorInterference(st *State, lock Val) {
	sub := lock.Sub
	ov, t := e.objVal(sub.Owner, sub.Obj)
	if t == nil {
		return
	}
	first := !st.everHeld[lock.T[0]]
	st.quiet++
	for _, f := range e.guardedFields(sub.Owner, sub.Path) {
		e.havocField(st, ov, f, first)
	}
	st.quiet--
	st.everHeld[lock.T[0]] = true
	e.assumeInvariants(st, sub.Owner, sub.Path, ov, t)
}

func (e *Exec) assumeInvariants(st *State, owner, lock string, ov Val, t types.Type) {
	tc := e.typeContract(owner)
	if tc == nil {
		return
	}
	for _, c := range tc.Invariants {
		if c.Lock != lock {
			continue
		}
		ctx := &evalCtx{st: st, self: &ov, selfT: t, scope: map[string]Val{}}
		g, err := e.evalBool(ctx, c.Expr)
		if err != nil {
			e.contractError(&FuncContract{Name: "type " + owner, Line: c.Line}, c, err)
			continue
		}
		st.assume(g)
	}
}

func (e *Exec) assertInvariants(st *State, owner, lock string, ov Val, t types.Type, instr ssa.Instruction, where string) {
	tc := e.typeContract(owner)
	if tc == nil {
		return
	}
	for i, c := range tc.Invariants {
		if c.Lock != lock {
			continue
		}
		ctx := &evalCtx{st: st, self: &ov, selfT: t, scope: map[string]Val{}}
		g, err := e.evalBool(ctx, c.Expr)
		if err != nil {
			e.contractError(&FuncContract{Name: "type " + owner, Line: c.Line}, c, err)
			continue
		}
		e.oblige(st, "lockinv", fmt.Sprintf("%s/%s.%s/%s", where, owner, lock, clauseID(c, i)), c.Props, "invariant of "+owner+"."+lock+": "+c.Text, g, instr.Pos())
	}
}

func (e *Exec) lock(st *State, instr ssa.Instruction, l Val, read bool) {
	if l.Sub == nil {
		st.note("Lock on untracked mutex")
		return
	}
	if h := st.holds(l.T[0]); h != nil && (!read || !h.Read) {
		e.oblige(st, "lockorder", "selfdeadlock@"+e.callAnchor(st.top(), instr), nil, "mutex acquired while already held", "false", instr.Pos())
	}
	e.checkLockOrder(st, instr, l)
	e.checkLockDeclared(st, instr, l)
	e.monitorInterference(st, l)
	st.counts["acquired:"+l.T[0]]++
	st.counts["acquired"]++
	e.snapshot(st, l.T[0])
	st.held = append(st.held, HeldLock{Term: l.T[0], Owner: l.Sub.Owner, Field: l.Sub.Path, Obj: l.Sub.Obj, Read: read})
	st.events = append(st.events, "lock:"+l.Sub.Owner+"."+l.Sub.Path)
}

func (e *Exec) unlock(st *State, instr ssa.Instruction, l Val, read bool) {
	if l.Sub == nil {
		return
	}
	found := -1
	for i := len(st.held) - 1; i >= 0; i-- {
		if st.held[i].Term == l.T[0] {
			found = i
			break
		}
	}
	if found < 0 {
		e.oblige(st, "lockorder", "unlock-unheld@"+e.callAnchor(st.top(), instr), nil, "unlock of a mutex that is not held on this path", "false", instr.Pos())
		return
	}
	ov, t := e.objVal(l.Sub.Owner, l.Sub.Obj)
	if t != nil && !read {
		e.assertInvariants(st, l.Sub.Owner, l.Sub.Path, ov, t, instr, "unlock@"+e.callAnchor(st.top(), instr))
		e.wakeupObligation(st, l, ov, t, instr)
	}
	st.held = append(st.held[:found], st.held[found+1:]...)
	st.events = append(st.events, "unlock:"+l.Sub.Owner+"."+l.Sub.Path)
}

// checkLockDeclared: a function under contract may only enter monitors its
// 'locks' clause announces (callers rely on that clause for interference).
func (e *Exec) checkLockDeclared(st *State, instr ssa.Instruction, l Val) {
	if e.fc == nil || e.sweepNoPanic && len(e.fc.Locks) == 0 && !e.fc.HasAssign {
		return
	}
	if len(e.guardedFields(l.Sub.Owner, l.Sub.Path)) == 0 {
		return // a mutex that guards no declared state needs no interference modelling
	}
	if e.isFresh(st, l.Sub.Obj) {
		return
	}
	fr0 := st.frames[0]
	for _, al := range e.fc.AnyLocks {
		if al == l.Sub.Owner+"."+l.Sub.Path {
			return
		}
	}
	for _, le := range e.fc.Locks {
		ctx := &evalCtx{st: st, fr: fr0, scope: map[string]Val{}, entryScope: e.entryParams(), paramsFirst: true}
		lv, err := e.evalTop(ctx, le, nil)
		if err == nil && lv.T[0] == l.T[0] {
			return
		}
	}
	// semantic comparison as a fallback
	var alts []string
	for _, le := range e.fc.Locks {
		ctx := &evalCtx{st: st, fr: fr0, scope: map[string]Val{}, entryScope: e.entryParams(), paramsFirst: true}
		lv, err := e.evalTop(ctx, le, nil)
		if err == nil && lv.Sub != nil && lv.Sub.Owner == l.Sub.Owner && lv.Sub.Path == l.Sub.Path {
			alts = append(alts, tEq(lv.Sub.Obj, l.Sub.Obj))
		}
		if err != nil {
			// e.g. a local the clause names has been renamed: without it the
			// comparison below cannot succeed, which says nothing about the code
			st.note("locks clause entry %s cannot be evaluated at %s", exprString(le), e.callAnchor(st.top(), instr))
		}
	}
	e.oblige(st, "locks-declared", l.Sub.Owner+"."+l.Sub.Path+"@"+e.callAnchor(st.top(), instr), nil,
		"monitor "+l.Sub.Owner+"."+l.Sub.Path+" entered here is announced by the function's locks clause", tOr(alts...), instr.Pos())
}

// wakeupObligation: if this critical section falsified a wait guard of a
// condition variable of the monitor, it must have signalled.
func (e *Exec) wakeupObligation(st *State, l Val, ov Val, t types.Type, instr ssa.Instruction) {
	tc := e.typeContract(l.Sub.Owner)
	if tc == nil {
		return
	}
	for cf, d := range tc.Fields {
		if d.Class != "monitor" || firstField(d.Arg) != l.Sub.Path {
			continue
		}
		for i, g := range tc.Invariants {
			if g.Lock != cf {
				continue
			}
			ctxNew := &evalCtx{st: st, self: &ov, selfT: t, scope: map[string]Val{}}
			gn, err1 := e.evalBool(ctxNew, g.Expr)
			ctxOld := &evalCtx{st: st, self: &ov, selfT: t, scope: map[string]Val{}, inOld: true, oldHeap: st.snaps[l.T[0]]}
			if ctxOld.oldHeap == nil {
				continue
			}
			gold, err2 := e.evalBool(ctxOld, g.Expr)
			if err1 != nil || err2 != nil {
				continue
			}
			sig := "false"
			if st.counts["signalled"] > 0 {
				sig = "true"
			}
			e.oblige(st, "wakeup", fmt.Sprintf("unlock@%s/%s.%s/%s", e.callAnchor(st.top(), instr), l.Sub.Owner, cf, clauseID(g, i)), g.Props,
				"a critical section that ends a waiter's wait ("+g.Text+" becomes false) signals the condition variable", tImp(tAnd(gold, tNot(gn)), sig), instr.Pos())
		}
	}
}

func (e *Exec) checkLockOrder(st *State, instr ssa.Instruction, l Val) {
	newName := l.Sub.Owner + "." + l.Sub.Path
	for _, h := range st.held {
		hn := h.Owner + "." + h.Field
		ok := false
		for _, lo := range e.cs.LockOrder {
			if lo[0] == hn && lo[1] == newName {
				ok = true
			}
		}
		if !ok {
			e.oblige(st, "lockorder", fmt.Sprintf("%s<%s@%s", hn, newName, e.callAnchor(st.top(), instr)), []string{"C15"}, "lock order: "+newName+" acquired while holding "+hn+" is not declared", "false", instr.Pos())
		}
	}
}

// ---------------- field disciplines ----------------

// checkAccess: semantic part of the field disciplines. A field published by
// closing a channel may be read only on paths on which that close has been
// observed (or by the publisher itself / while the object is fresh).
func (e *Exec) checkAccess(st *State, loc *Loc, write bool, instr ssa.Instruction) {
	if loc.Owner == "" || e.fc == nil {
		return
	}
	tc := e.typeContract(loc.Owner)
	if tc == nil {
		return
	}
	d, ok := tc.Fields[loc.Field]
	if !ok || d.Class != "published_by" || write {
		return
	}
	if e.isFresh(st, loc.Ref) {
		return
	}
	pub := firstField(d.Arg)
	if strings.HasSuffix(e.fname, ".recvLoop") {
		return // the publisher reads its own writes
	}
	t := e.ownerType(loc.Owner)
	if t == nil {
		return
	}
	f, _ := findField(t, pub)
	if f == nil {
		return
	}
	ch := e.loadFrom(st, &Loc{Key: fieldKey(loc.Owner, pub), Typ: f.Type(), Ref: loc.Ref}, false)
	n := st.counts["pubread:"+loc.Owner+"."+loc.Field]
	st.counts["pubread:"+loc.Owner+"."+loc.Field] = n + 1
	e.oblige(st, "discipline", fmt.Sprintf("observed/%s.%s@%s", loc.Owner, loc.Field, e.srcAnchor(st.top(), instr)), []string{"C15"},
		"field "+loc.Owner+"."+loc.Field+" (published by closing "+pub+") is read only after that close has been observed", e.chanClosed(st, ch.T[0], false, nil), instr.Pos())
}

func (e *Exec) checkMapAccess(st *State, m ssa.Value, write bool, instr ssa.Instruction) {}

// ---------------- escape tracking for local cells ----------------

// escapeVal: a value handed to code we do not execute may carry the address
// of a local cell (directly or through closure bindings): that cell is no
// longer preserved across heap havoc.
func (e *Exec) escapeVal(st *State, v Val) {
	if v.Loc != nil && v.Loc.Local && !v.Loc.WriteOnce {
		if cv, ok := st.cells[v.Loc.Ref]; ok {
			// spill the cell into the heap arrays: from now on it can be modified by others
			delete(st.cells, v.Loc.Ref)
			e.storeTo(st, v.Loc, cv)
			e.escapeVal(st, cv)
		}
	}
	if v.Clo != nil {
		for _, b := range v.Clo.Bindings {
			e.escapeVal(st, b)
		}
	}
}

func (e *Exec) escapeIfStored(st *State, loc *Loc, v Val) {
	if !loc.Local {
		e.escapeVal(st, v)
	}
}

// neverClosed: channel-typed fields declared 'neverclosed' in the type contract.
func (e *Exec) neverClosed(v ssa.Value) bool {
	u, ok := v.(*ssa.UnOp)
	if !ok {
		return false
	}
	fa, ok := u.X.(*ssa.FieldAddr)
	if !ok {
		return false
	}
	pt := fa.X.Type().Underlying().(*types.Pointer).Elem()
	su := pt.Underlying().(*types.Struct)
	if tc := e.typeContract(namedKey(pt)); tc != nil {
		if d, ok := tc.Fields[su.Field(fa.Field).Name()]; ok && strings.Contains(d.Arg, "neverclosed") {
			return true
		}
	}
	return false
}

// ---------------- channels ----------------

func (e *Exec) chanClosedArr(st *State, old bool, oldHeap map[string]string) string {
	s := arr(SInt, SBool)
	if old {
		if oldHeap != nil {
			return e.arrIn(oldHeap, "chan#closed", s)
		}
		return e.oldArr(st, "chan#closed", s)
	}
	return e.curArr(st, "chan#closed", s)
}

func (e *Exec) chanClosed(st *State, ch string, old bool, oldHeap map[string]string) string {
	return app("select", e.chanClosedArr(st, old, oldHeap), ch)
}

func (e *Exec) initChan(st *State, r string, size Val) {
	s := arr(SInt, SBool)
	a := e.curArr(st, "chan#closed", s)
	e.setArr(st, "chan#closed", s, app("store", a, r, "false"))
	cs := arr(SInt, SBV(64))
	ca := e.curArr(st, "chan#cap", cs)
	e.setArr(st, "chan#cap", cs, app("store", ca, r, size.T[0]))
}

func (e *Exec) chanClose(st *State, instr ssa.Instruction, ch Val) {
	c := ch.T[0]
	e.nopanicAlways(st, "closenil", instr, tNot(tEq(c, "0")))
	e.nopanicAlways(st, "doubleclose", instr, tNot(e.chanClosed(st, c, false, nil)))
	s := arr(SInt, SBool)
	a := e.curArr(st, "chan#closed", s)
	st.wrote("chan#closed", c)
	e.setArr(st, "chan#closed", s, app("store", a, c, "true"))
	st.counts["close"]++
	if e.fc != nil {
		e.stableInvs(st, true, instr, "after@"+e.callAnchor(st.top(), instr))
	}
}

// nopanicAlways: like nopanic but emitted for every function under contract
// (close-of-closed is also a functional "exactly once" obligation).
func (e *Exec) nopanicAlways(st *State, what string, in ssa.Instruction, goal string) {
	e.nopanic(st, what, in, goal)
}

func (e *Exec) chanSend(st *State, x *ssa.Send) {
	e.interfere(st)
	ch := e.val(st, x.Chan)
	e.atAnchor(st, x, []Val{e.val(st, x.X)}, &ch)
	// send on a closed channel panics
	if !e.neverClosed(x.Chan) {
		e.nopanic(st, "sendclosed", x, tNot(e.chanClosed(st, ch.T[0], false, nil)))
	}
	st.counts["blocking"]++
}

func (e *Exec) chanRecv(st *State, x *ssa.UnOp, b *ssa.BasicBlock, idx int) bool {
	fr := st.top()
	e.interfere(st)
	ch := e.val(st, x.X)
	e.atAnchor(st, x, nil, &ch)
	et := x.X.Type().Underlying().(*types.Chan).Elem()
	v := e.freshVal("recv", et)
	st.counts["blocking"]++
	st.counts["chanrecv"]++
	st.events = append(st.events, "chanrecv")
	if e.isSignalChan(x.X) {
		// a channel that is never sent on: a receive returns only once it is closed
		st.assume(e.chanClosed(st, ch.T[0], false, nil))
	}
	if x.CommaOk {
		ok := e.fresh("recv.ok", SBool)
		st.assume(tImp(tNot(ok), e.chanClosed(st, ch.T[0], false, nil)))
		v.T = append(v.T, ok)
		v.Typ = x.Type()
	}
	fr.env[x] = v
	return false
}

// isSignalChan: chan struct{} values that the package only ever closes.
func (e *Exec) isSignalChan(v ssa.Value) bool {
	ct, ok := v.Type().Underlying().(*types.Chan)
	if !ok {
		return false
	}
	if s, ok := ct.Elem().Underlying().(*types.Struct); !ok || s.NumFields() != 0 {
		return false
	}
	// values produced by Done() or loaded from fields declared 'signal'
	switch x := v.(type) {
	case *ssa.Call:
		if x.Call.IsInvoke() && x.Call.Method.Name() == "Done" {
			return true
		}
		if f, ok := x.Call.Value.(*ssa.Function); ok && f.Name() == "Done" {
			return true
		}
	case *ssa.UnOp:
		if fa, ok := x.X.(*ssa.FieldAddr); ok {
			su := fa.X.Type().Underlying().(*types.Pointer).Elem().Underlying().(*types.Struct)
			owner := namedKey(fa.X.Type().Underlying().(*types.Pointer).Elem())
			if tc := e.typeContract(owner); tc != nil {
				if d, ok := tc.Fields[su.Field(fa.Field).Name()]; ok && strings.Contains(d.Arg, "signal") {
					return true
				}
			}
		}
	case *ssa.Phi:
		for _, ed := range x.Edges {
			if !e.isSignalChan(ed) {
				return false
			}
		}
		return true
	}
	return false
}

func (e *Exec) doSelect(st *State, x *ssa.Select, b *ssa.BasicBlock, idx int) bool {
	fr := st.top()
	e.interfere(st)
	// at select: arguments are, case by case, the channel and (for a send
	// case) the value sent; 'blocking' tells whether there is no default
	var selArgs []Val
	for _, s := range x.States {
		selArgs = append(selArgs, e.val(st, s.Chan))
		if s.Dir == types.SendOnly {
			selArgs = append(selArgs, e.val(st, s.Send))
		}
	}
	blk := "false"
	if x.Blocking {
		blk = "true"
	}
	e.selBlocking = blk
	e.atAnchor(st, x, selArgs, nil)
	e.selBlocking = ""
	// result tuple: (index int, recvOk bool, recv values...)
	tt := x.Type().(*types.Tuple)
	type outcome struct {
		index int
		st    *State
	}
	n := len(x.States)
	if x.Blocking {
		st.counts["blocking"]++
	}
	var closedConds []string
	for _, s := range x.States {
		ch := e.val(st, s.Chan)
		if s.Dir == types.RecvOnly {
			closedConds = append(closedConds, e.chanClosed(st, ch.T[0], false, nil))
		}
	}
	last := n
	if !x.Blocking {
		last = n + 1 // default branch, index -1
	}
	for i := 0; i < last; i++ {
		var s2 *State
		if i == last-1 {
			s2 = st
		} else {
			e.countPath()
			s2 = st.clone()
		}
		fr2 := s2.top()
		out := Val{Typ: x.Type()}
		index := i
		if i == n {
			index = -1
			// default is taken only if no receive case is certainly ready
			for _, c := range closedConds {
				s2.assume(tNot(c))
			}
		}
		out.T = append(out.T, bvLitI(int64(index), 64))
		recvOk := "false"
		if i < n {
			sel := x.States[i]
			ch := e.val(s2, sel.Chan)
			if sel.Dir == types.RecvOnly {
				if e.isSignalChan(sel.Chan) {
					s2.assume(e.chanClosed(s2, ch.T[0], false, nil))
					recvOk = "false"
				} else {
					recvOk = e.fresh("sel.ok", SBool)
					s2.assume(tImp(tNot(recvOk), e.chanClosed(s2, ch.T[0], false, nil)))
				}
				s2.events = append(s2.events, fmt.Sprintf("selectrecv:%d", i))
			} else if !e.neverClosed(sel.Chan) {
				e.nopanic(s2, "sendclosed", x, tNot(e.chanClosed(s2, ch.T[0], false, nil)))
			}
		}
		out.T = append(out.T, recvOk)
		for j := 2; j < tt.Len(); j++ {
			fv := e.freshVal("sel.v", tt.At(j).Type())
			out.T = append(out.T, fv.T...)
		}
		fr2.env[x] = out
		s2.counts["select.choice"] = index
		e.continueAfter(s2, b, idx)
	}
	_ = fr
	return true
}

// ---------------- go statements ----------------

func (e *Exec) doGo(st *State, x *ssa.Go) {
	var args []Val
	for _, a := range x.Call.Args {
		args = append(args, e.val(st, a))
	}
	fnv := e.val(st, x.Call.Value)
	e.atAnchor(st, x, args, &fnv)
	name := "?"
	var target *ssa.Function
	switch v := x.Call.Value.(type) {
	case *ssa.Function:
		target = v
	case *ssa.MakeClosure:
		target = v.Fn.(*ssa.Function)
	}
	if target != nil {
		name = FuncName(target)
		if o := target.Origin(); o != nil {
			name = FuncName(o)
		}
	}
	e.escapeVal(st, fnv)
	for _, a := range args {
		e.escapeVal(st, a)
	}
	st.counts["go"]++
	st.counts["go:"+name]++
	st.events = append(st.events, "go:"+name)
	// the spawned function's requires must hold here
	if fc := e.cs.Funcs[name]; fc != nil && target != nil {
		scope := map[string]Val{}
		for i, p := range target.Params {
			if i < len(args) {
				scope[p.Name()] = args[i]
			}
		}
		if fnv.Clo != nil {
			for i, fv := range target.FreeVars {
				if i < len(fnv.Clo.Bindings) {
					if pt, ok := fv.Type().(*types.Pointer); ok {
						scope[fv.Name()] = e.loadFrom(st, e.derefLoc(st, fnv.Clo.Bindings[i], pt.Elem()), false)
					}
				}
			}
		}
		for i, c := range fc.Requires {
			ctx := &evalCtx{st: st, scope: scope}
			g, err := e.evalBool(ctx, c.Expr)
			if err != nil {
				e.contractError(fc, c, err)
				continue
			}
			e.oblige(st, "pre@go", fmt.Sprintf("%s/%s", e.callAnchor(st.top(), x), clauseID(c, i)), c.Props, "requires "+c.Text+" of spawned "+name, g, x.Pos())
		}
	}
}

// ---------------- container/list as an abstract sequence ----------------

func (e *Exec) listArr(st *State, which string, sort string, old bool, oldHeap map[string]string) string {
	key := "list#" + which
	if old {
		if oldHeap != nil {
			return e.arrIn(oldHeap, key, sort)
		}
		return e.oldArr(st, key, sort)
	}
	return e.curArr(st, key, sort)
}

func (e *Exec) listBounds(st *State, l string, old bool, oh map[string]string) (string, string) {
	lo := app("select", e.listArr(st, "lo", arr(SInt, SInt), old, oh), l)
	hi := app("select", e.listArr(st, "hi", arr(SInt, SInt), old, oh), l)
	return lo, hi
}

func (e *Exec) listSum(st *State, l string, old bool, oh map[string]string) string {
	return app("select", e.listArr(st, "sum", arr(SInt, SBV(64)), old, oh), l)
}

func (e *Exec) listElem(st *State, l, i string, old bool, oh map[string]string) string {
	return app("select", app("select", e.listArr(st, "elems", arr(SInt, arr(SInt, SInt)), old, oh), l), i)
}

func (e *Exec) listSet(st *State, which, sort, l, v string) {
	key := "list#" + which
	st.wrote(key, l)
	a := e.curArr(st, key, sort)
	e.setArr(st, key, sort, app("store", a, l, v))
}

// listWF: lo <= hi, and an empty list has sum 0.
func (e *Exec) assumeListWF(st *State, l string) {
	lo, hi := e.listBounds(st, l, false, nil)
	st.assume(app("<=", lo, hi))
	st.assume(tImp(tEq(lo, hi), tEq(e.listSum(st, l, false, nil), bvLitI(0, 64))))
}

// ---------------- contexts ----------------

func (e *Exec) descendsFn() string { return e.fun("ctx_descends", []string{SInt, SInt}, SBool) }

func (e *Exec) ctxCancelled(st *State, c string, old bool, oh map[string]string) string {
	s := arr(SInt, SBool)
	key := "ctx#cancelled"
	var a string
	if old {
		if oh != nil {
			a = e.arrIn(oh, key, s)
		} else {
			a = e.oldArr(st, key, s)
		}
	} else {
		a = e.curArr(st, key, s)
	}
	return app("select", a, c)
}

func (e *Exec) setCtxCancelled(st *State, c string) {
	s := arr(SInt, SBool)
	st.wrote("ctx#cancelled", c)
	a := e.curArr(st, "ctx#cancelled", s)
	e.setArr(st, "ctx#cancelled", s, app("store", a, c, "true"))
}

func (e *Exec) ctxValue(st *State, c Val, k Val) Val {
	f := e.fun("ctx_value_tag", []string{SInt, SInt}, SInt)
	g := e.fun("ctx_value_val", []string{SInt, SInt}, SInt)
	cid := c.T[len(c.T)-1]
	kid := k.T[0]
	return Val{T: []string{app(f, cid, kid), app(g, cid, kid)}, Typ: types.NewInterfaceType(nil, nil)}
}

// snapshot records the heap at the latest acquisition of a monitor (basis of
// the wake-up obligation for the critical-section segment that follows).
func (e *Exec) snapshot(st *State, lock string) {
	st.snaps[lock] = e.snapHeap(st)
}

func firstField(s string) string {
	f := strings.Fields(s)
	if len(f) == 0 {
		return ""
	}
	return f[0]
}

// ---------------- abstract receiver state (interface-level ghost) ----------------

func (e *Exec) recvState(st *State, which, r string, old bool, oh map[string]string) string {
	key := "recv#" + which
	s := arr(SInt, SBool)
	var a string
	switch {
	case old && oh != nil:
		a = e.arrIn(oh, key, s)
	case old:
		a = e.oldArr(st, key, s)
	default:
		a = e.curArr(st, key, s)
	}
	return app("select", a, r)
}

// stableInvariants: cross-object facts over monotone state (closed channels,
// set-once atomics, terminated receivers). They are assumed for objects in
// scope and re-proved after every call that can make their antecedent true.
func (e *Exec) stableObjs(st *State) []Val {
	fr := st.frames[0]
	var out []Val
	add := func(v Val, t types.Type) {
		pt, ok := t.Underlying().(*types.Pointer)
		if !ok || !isStruct(pt.Elem()) || len(v.T) != 1 {
			return
		}
		if tc := e.typeContract(namedKey(pt.Elem())); tc != nil {
			for _, c := range tc.Invariants {
				if c.Lock == "stable" {
					out = append(out, Val{T: v.T, Typ: t})
					return
				}
			}
		}
	}
	for _, p := range fr.fn.Params {
		add(fr.params[p.Name()], p.Type())
	}
	for _, fv := range fr.fn.FreeVars {
		if pt, ok := fv.Type().(*types.Pointer); ok {
			v := e.loadFrom(st, e.derefLoc(st, fr.freeV[fv.Name()], pt.Elem()), false)
			add(v, pt.Elem())
		}
	}
	return out
}

func (e *Exec) stableInvs(st *State, assert bool, instr ssa.Instruction, where string) {
	for _, ov := range e.stableObjs(st) {
		pt := ov.Typ.Underlying().(*types.Pointer).Elem()
		owner := namedKey(pt)
		tc := e.typeContract(owner)
		for i, c := range tc.Invariants {
			if c.Lock != "stable" {
				continue
			}
			o := ov
			ctx := &evalCtx{st: st, self: &o, selfT: pt, scope: map[string]Val{}}
			g, err := e.evalBool(ctx, c.Expr)
			if err != nil {
				e.contractError(&FuncContract{Name: "type " + owner, Line: c.Line}, c, err)
				continue
			}
			g = tImp(tNot(tEq(ov.T[0], "0")), g)
			if assert {
				e.oblige(st, "stable", fmt.Sprintf("%s/%s/%s", where, owner, clauseID(c, i)), c.Props, "stable cross-object invariant of "+owner+": "+c.Text, g, instr.Pos())
			}
			st.assume(g)
		}
	}
}

// ---------------- interference on monotone shared state ----------------

var monotoneKeys = []string{"chan#closed", "ctx#cancelled", "recv#cancelled", "recv#closed"}

// interfere models the passage of time at a call or blocking operation: other
// goroutines may have closed channels, cancelled contexts or terminated
// receivers meanwhile. Positive (stable) facts survive, negative ones do not.
// Channels whose closing is protected by a lock this path holds, or by a
// once-token this path won, are exempt.
func (e *Exec) interfere(st *State) {
	s := arr(SInt, SBool)
	changed := false
	for _, k := range monotoneKeys {
		_, inHeap := st.heap[k]
		_, declared := e.decls[e.entryArrName(k)]
		if !inHeap && !declared {
			continue // never observed: still arbitrary
		}
		old := e.curArr(st, k, s)
		nw := e.fresh("T:"+k, s)
		x := e.freshName("x")
		st.assume(fmt.Sprintf("(forall ((%s Int)) (! (=> (select %s %s) (select %s %s)) :pattern ((select %s %s))))", x, old, x, nw, x, nw, x))
		st.heap[k] = nw
		if k == "chan#closed" {
			for _, c := range e.protectedChans(st) {
				st.assume(tEq(app("select", nw, c), app("select", old, c)))
			}
			// channels created on this path and not yet shared cannot be closed by others
			for _, f := range st.fresh {
				if strings.HasPrefix(f, "|new:chan") {
					st.assume(tEq(app("select", nw, f), app("select", old, f)))
				}
			}
		}
		changed = true
	}
	if changed {
		e.stableInvs(st, false, nil, "")
	}
}

// protectedChans: channel fields (of objects in scope) declared 'closedby X'
// where X is a mutex this path holds on that object or a token it has won.
func (e *Exec) protectedChans(st *State) []string {
	var out []string
	seen := map[string]bool{}
	consider := func(owner, obj string) {
		key := owner + "@" + obj
		if seen[key] {
			return
		}
		seen[key] = true
		tc := e.typeContract(owner)
		t := e.ownerType(owner)
		if tc == nil || t == nil {
			return
		}
		for _, fname := range sortedKeys(tc.Fields) {
			d := tc.Fields[fname]
			i := strings.Index(d.Arg, "closedby ")
			if i < 0 {
				continue
			}
			prot := firstField(d.Arg[i+len("closedby "):])
			ok := false
			if strings.HasPrefix(prot, "func:") && strings.HasSuffix(e.fname, "."+strings.TrimPrefix(prot, "func:")) {
				ok = true // closed only by this (single-instance) function; checked by the discipline pass
			}
			for _, h := range st.held {
				if h.Owner == owner && h.Obj == obj && h.Field == prot && !h.Read {
					ok = true
				}
			}
			subFn := e.fun(sym("sub."+owner+"."+prot), []string{SInt}, SInt)
			if st.casWon[app(subFn, obj)] {
				ok = true
			}
			if !ok {
				continue
			}
			loc := &Loc{Key: fieldKey(owner, fname), Typ: types.NewChan(types.SendRecv, types.NewStruct(nil, nil)), Ref: obj}
			out = append(out, e.loadFrom(st, loc, false).T[0])
		}
	}
	for _, h := range st.held {
		consider(h.Owner, h.Obj)
	}
	fr0 := st.frames[0]
	for _, p := range fr0.fn.Params {
		if pt, ok := p.Type().Underlying().(*types.Pointer); ok && isStruct(pt.Elem()) {
			consider(namedKey(pt.Elem()), fr0.params[p.Name()].T[0])
		}
	}
	for k := range st.casWon {
		// k = (|sub.Owner.field| obj)
		if strings.HasPrefix(k, "(|sub.") {
			rest := k[len("(|sub."):]
			if i := strings.Index(rest, "| "); i > 0 {
				of := rest[:i]
				obj := strings.TrimSuffix(rest[i+2:], ")")
				if j := strings.LastIndex(of, "."); j > 0 {
					consider(of[:j], obj)
				}
			}
		}
	}
	return out
}
