package engine

import (
	"fmt"
	"go/types"
	"math/big"
	"strings"
)

// evalCtx is the environment a contract expression is evaluated in.
type evalCtx struct {
	st      *State
	oldHeap map[string]string // heap used inside old(...); nil = st.old
	inOld   bool
	scope   map[string]Val // explicit bindings: params, result, argN, let names
	fr      *Frame         // frame whose source variables are visible (nil: none)
	entryScope map[string]Val // parameter entry values for old(param)
	self    *Val           // receiver object for type invariants ("this" and bare field names)
	selfT   types.Type
	err     error
	paramsFirst bool // ensures: parameter names denote entry values, not the current variable
}

type evalErr struct{ msg string }

func (e *Exec) evalBool(ctx *evalCtx, x Expr) (string, error) {
	v, err := e.evalTop(ctx, x, types.Typ[types.Bool])
	if err != nil {
		return "", err
	}
	if len(v.T) != 1 {
		return "", fmt.Errorf("expression %s is not boolean", exprString(x))
	}
	return v.T[0], nil
}

func (e *Exec) evalTop(ctx *evalCtx, x Expr, want types.Type) (v Val, err error) {
	defer func() {
		if r := recover(); r != nil {
			if ee, ok := r.(evalErr); ok {
				err = fmt.Errorf("%s", ee.msg)
				return
			}
			panic(r)
		}
	}()
	return e.eval(ctx, x, want), nil
}

func fail(format string, args ...any) { panic(evalErr{fmt.Sprintf(format, args...)}) }

func (e *Exec) heapFor(ctx *evalCtx) (useOld bool) { return ctx.inOld }

func (e *Exec) ctxLoad(ctx *evalCtx, loc *Loc) Val {
	if ctx.inOld {
		if ctx.oldHeap != nil {
			saved := ctx.st.old
			ctx.st.old = ctx.oldHeap
			v := e.loadFrom(ctx.st, loc, true)
			ctx.st.old = saved
			return v
		}
		return e.loadFrom(ctx.st, loc, true)
	}
	return e.loadFrom(ctx.st, loc, false)
}

func (e *Exec) lookupType(name string) types.Type {
	// *pkg.T, pkg.T, T (package-local), basic types
	ptr := 0
	for strings.HasPrefix(name, "*") {
		ptr++
		name = name[1:]
	}
	var t types.Type
	if i := strings.Index(name, "."); i >= 0 {
		pn, tn := name[:i], name[i+1:]
		for _, imp := range e.prog.Pkg.Types.Imports() {
			if imp.Name() == pn {
				if o := imp.Scope().Lookup(tn); o != nil {
					t = o.Type()
				}
			}
		}
		if t == nil {
			// search transitive imports by package name
			for _, p := range e.prog.SSA.AllPackages() {
				if p.Pkg.Name() == pn {
					if o := p.Pkg.Scope().Lookup(tn); o != nil {
						t = o.Type()
						break
					}
				}
			}
		}
	} else if o := e.prog.Pkg.Types.Scope().Lookup(name); o != nil {
		t = o.Type()
	} else if o := types.Universe.Lookup(name); o != nil {
		t = o.Type()
	}
	if t == nil {
		return nil
	}
	for ; ptr > 0; ptr-- {
		t = types.NewPointer(t)
	}
	return t
}

func (e *Exec) litFor(v *big.Int, want types.Type) Val {
	if want != nil && isIntType(want) {
		return Val{T: []string{bvLit(v, bvWidth(shape(want)[0].Sort))}, Typ: want}
	}
	if want != nil {
		if ls := shape(want); len(ls) == 1 && ls[0].Sort == SInt {
			return Val{T: []string{intLit(v.Int64())}, Typ: want}
		}
	}
	return Val{T: []string{bvLit(v, 64)}, Typ: types.Typ[types.Int]}
}

func isLiteral(x Expr) bool {
	switch x := x.(type) {
	case *EInt:
		return true
	case *EUn:
		return x.Op == "-" && isLiteral(x.X)
	case *EIdent:
		return x.Name == "nil"
	}
	return false
}

func (e *Exec) eval(ctx *evalCtx, x Expr, want types.Type) Val {
	switch x := x.(type) {
	case *EBool:
		if x.V {
			return Val{T: []string{"true"}, Typ: types.Typ[types.Bool]}
		}
		return Val{T: []string{"false"}, Typ: types.Typ[types.Bool]}
	case *EInt:
		return e.litFor(x.V, want)
	case *EStr:
		return Val{T: []string{e.strConst(ctx.st, x.S)}, Typ: types.Typ[types.String]}
	case *EIdent:
		return e.evalIdent(ctx, x.Name, want)
	case *EUn:
		switch x.Op {
		case "!":
			return Val{T: []string{tNot(e.eval(ctx, x.X, types.Typ[types.Bool]).T[0])}, Typ: types.Typ[types.Bool]}
		case "-":
			if lit, ok := x.X.(*EInt); ok {
				return e.litFor(new(big.Int).Neg(lit.V), want)
			}
			v := e.eval(ctx, x.X, want)
			return Val{T: []string{app("bvneg", v.T[0])}, Typ: v.Typ}
		case "*":
			// *p: the value the pointer p refers to
			v := e.eval(ctx, x.X, nil)
			if v.Typ == nil {
				fail("dereference of untyped value %s", exprString(x.X))
			}
			pt, ok := under(v.Typ).(*types.Pointer)
			if !ok {
				fail("dereference of non-pointer %s", exprString(x.X))
			}
			return e.ctxLoad(ctx, e.derefLoc(ctx.st, v, pt.Elem()))
		}
	case *EBin:
		return e.evalBin(ctx, x, want)
	case *ESel:
		return e.evalSel(ctx, x)
	case *EIndex:
		return e.evalIndex(ctx, x)
	case *ESlice:
		return e.evalSlice(ctx, x)
	case *ECall:
		return e.evalCall(ctx, x, want)
	case *EForall:
		if x.In != nil {
			sv := e.eval(ctx, x.In, nil)
			slt, ok := under(sv.Typ).(*types.Slice)
			if !ok || len(sv.T) != 4 {
				fail("forall-in needs a slice")
			}
			bn := e.freshName("q:p")
			ev := e.ctxLoad(ctx, e.elemLoc(sv.T[0], bn, slt.Elem()))
			if ctx.scope == nil {
				ctx.scope = map[string]Val{}
			}
			saved, had := ctx.scope[x.Var]
			ctx.scope[x.Var] = ev
			body := e.eval(ctx, x.Body, types.Typ[types.Bool])
			if had {
				ctx.scope[x.Var] = saved
			} else {
				delete(ctx.scope, x.Var)
			}
			rng := tAnd(app("bvule", sv.T[1], bn), app("bvult", bn, app("bvadd", sv.T[1], sv.T[2])))
			return Val{T: []string{fmt.Sprintf("(forall ((%s (_ BitVec 64))) (! (=> %s %s) :pattern (%s)))", bn, rng, body.T[0], ev.T[0])}, Typ: types.Typ[types.Bool]}
		}
		t := e.lookupType(x.Type)
		if x.Type == "ghostint" {
			t = ghostIntT
		}
		if t == nil {
			fail("forall: unknown type %s", x.Type)
		}
		ls := shape(t)
		if len(ls) != 1 {
			fail("forall over composite type %s", x.Type)
		}
		bn := e.freshName("q:" + x.Var)
		if ctx.scope == nil {
			ctx.scope = map[string]Val{}
		}
		saved, had := ctx.scope[x.Var]
		ctx.scope[x.Var] = Val{T: []string{bn}, Typ: t}
		body := e.eval(ctx, x.Body, types.Typ[types.Bool])
		if had {
			ctx.scope[x.Var] = saved
		} else {
			delete(ctx.scope, x.Var)
		}
		return Val{T: []string{fmt.Sprintf("(forall ((%s %s)) %s)", bn, ls[0].Sort, body.T[0])}, Typ: types.Typ[types.Bool]}
	case *EIs:
		v := e.eval(ctx, x.X, nil)
		if len(v.T) != 2 {
			fail("'is' applied to a non-interface value %s", exprString(x.X))
		}
		if x.T == "nil" {
			return Val{T: []string{tEq(v.T[0], "0")}, Typ: types.Typ[types.Bool]}
		}
		t := e.lookupType(x.T)
		if t == nil {
			fail("unknown type %s", x.T)
		}
		if types.IsInterface(t) && !isTypeParam(t) {
			// x is I: the dynamic type is non-nil and implements I
			return Val{T: []string{tAnd(tNot(tEq(v.T[0], "0")), app(e.implFn(t), v.T[0]))}, Typ: types.Typ[types.Bool]}
		}
		return Val{T: []string{tEq(v.T[0], e.typeID(t))}, Typ: types.Typ[types.Bool]}
	}
	fail("cannot evaluate %s", exprString(x))
	return Val{}
}

func (e *Exec) evalIdent(ctx *evalCtx, name string, want types.Type) Val {
	if name == "nil" {
		if want != nil {
			return e.zeroVal(want)
		}
		return Val{T: []string{"0"}, Typ: types.Typ[types.UntypedNil]}
	}
	if ctx.inOld && ctx.entryScope != nil {
		if v, ok := ctx.entryScope[name]; ok {
			return v
		}
	}
	if v, ok := ctx.scope[name]; ok {
		return v
	}
	if !ctx.inOld {
		if v, ok := ctx.st.ghost[name]; ok {
			return v
		}
	}
	if ctx.fr != nil && ctx.inOld {
		// old() only rewinds the heap: local variables keep their current value
		if _, isParam := ctx.fr.params[name]; !isParam {
			if v, ok := ctx.fr.vars[name]; ok {
				return v
			}
		}
	}
	if ctx.fr != nil && !ctx.inOld {
		if ctx.paramsFirst {
			if v, ok := ctx.fr.params[name]; ok {
				return v
			}
		}
		if loc, ok := ctx.fr.varAddr[name]; ok {
			return e.ctxLoad(ctx, loc)
		}
		if v, ok := ctx.fr.vars[name]; ok {
			return v
		}
	}
	if ctx.fr != nil {
		if v, ok := ctx.fr.params[name]; ok {
			return v
		}
		if v, ok := ctx.fr.freeV[name]; ok {
			// free variables are pointers to the captured variable
			pt := v.Typ.(*types.Pointer).Elem()
			if ctx.fr.fn == e.fn {
				return e.ctxLoad(ctx, e.derefLoc(ctx.st, v, pt))
			}
			return e.ctxLoad(ctx, e.derefLoc(ctx.st, v, pt))
		}
	}
	if ctx.self != nil {
		if f, idx := findField(ctx.selfT, name); f != nil {
			_ = idx
			return e.evalFieldOf(ctx, *ctx.self, ctx.selfT, name)
		}
		if name == "this" {
			return *ctx.self
		}
	}
	if c, ok := e.cs.Consts[name]; ok {
		t := e.lookupType(c.Type)
		if t == nil {
			t = types.Typ[types.Int]
		}
		if want != nil && isIntType(want) {
			t = want
		}
		return e.litFor(c.Val, t)
	}
	// package-level constants and well-known error globals
	if o := e.prog.Pkg.Types.Scope().Lookup(name); o != nil {
		switch o := o.(type) {
		case *types.Const:
			if bi, ok := new(big.Int).SetString(o.Val().ExactString(), 10); ok {
				t := o.Type()
				if b, isB := t.(*types.Basic); isB && b.Info()&types.IsUntyped != 0 {
					t = want
				}
				return e.litFor(bi, t)
			}
		case *types.Var:
			if name == "errFlowControlWindowExceeded" {
				return e.errGlobal(name, o.Type())
			}
		}
	}
	switch name {
	case "EOF":
		return e.errGlobal("io.EOF", errorType())
	case "Canceled":
		return e.errGlobal("context.Canceled", errorType())
	case "DeadlineExceeded":
		return e.errGlobal("context.DeadlineExceeded", errorType())
	}
	if code, ok := grpcCodes[name]; ok {
		return Val{T: []string{bvLitI(int64(code), 32)}, Typ: types.Typ[types.Uint32]}
	}
	fail("unknown identifier %q", name)
	return Val{}
}

var grpcCodes = map[string]int{"OK": 0, "Cancelled": 1, "CodeCanceled": 1, "Unknown": 2, "InvalidArgument": 3, "CodeDeadlineExceeded": 4, "NotFound": 5,
	"AlreadyExists": 6, "PermissionDenied": 7, "ResourceExhausted": 8, "FailedPrecondition": 9, "Aborted": 10, "OutOfRange": 11,
	"Unimplemented": 12, "Internal": 13, "Unavailable": 14, "DataLoss": 15, "Unauthenticated": 16}

func errorType() types.Type { return types.Universe.Lookup("error").Type() }

func findField(t types.Type, name string) (*types.Var, int) {
	if t == nil {
		return nil, -1
	}
	if p, ok := t.Underlying().(*types.Pointer); ok {
		t = p.Elem()
	}
	su, ok := t.Underlying().(*types.Struct)
	if !ok {
		return nil, -1
	}
	for i := 0; i < su.NumFields(); i++ {
		if su.Field(i).Name() == name {
			return su.Field(i), i
		}
	}
	return nil, -1
}

// evalFieldOf reads obj.field where obj is a pointer to (or sub-object ref of) a struct.
func (e *Exec) evalFieldOf(ctx *evalCtx, obj Val, t types.Type, field string) Val {
	st := t
	if p, ok := t.Underlying().(*types.Pointer); ok {
		st = p.Elem()
	}
	f, idx := findField(st, field)
	if f == nil {
		fail("type %s has no field %s", st, field)
	}
	if _, isStructVal := t.Underlying().(*types.Struct); isStructVal && obj.Sub == nil && len(obj.T) != 1 {
		// struct by value: pick leaves
		su := t.Underlying().(*types.Struct)
		off := 0
		for i := 0; i < idx; i++ {
			off += len(shape(su.Field(i).Type()))
		}
		n := len(shape(f.Type()))
		return Val{T: obj.T[off : off+n], Typ: f.Type()}
	}
	pv, _ := e.fieldLoc(ctx.st, obj, st, idx)
	if pv.Loc != nil {
		return e.ctxLoad(ctx, pv.Loc)
	}
	// embedded struct: yield a pointer-like value to the sub-object so that
	// further selection works
	pv.Typ = types.NewPointer(f.Type())
	return pv
}

func (e *Exec) evalSel(ctx *evalCtx, x *ESel) Val {
	// qualified identifiers: io.EOF, context.Canceled, codes.X, tunnelpb.X constants
	if id, ok := x.X.(*EIdent); ok {
		switch id.Name + "." + x.F {
		case "io.EOF", "context.Canceled", "context.DeadlineExceeded":
			return e.errGlobal(id.Name+"."+x.F, errorType())
		}
		if id.Name == "codes" {
			if c, ok := grpcCodes[x.F]; ok {
				return Val{T: []string{bvLitI(int64(c), 32)}, Typ: types.Typ[types.Uint32]}
			}
			if x.F == "Canceled" {
				return Val{T: []string{bvLitI(1, 32)}, Typ: types.Typ[types.Uint32]}
			}
			if x.F == "DeadlineExceeded" {
				return Val{T: []string{bvLitI(4, 32)}, Typ: types.Typ[types.Uint32]}
			}
		}
		if id.Name == "math" {
			switch x.F {
			case "MaxInt64":
				return Val{T: []string{bvLit(new(big.Int).SetUint64(1<<63 - 1), 64)}, Typ: types.Typ[types.Int64]}
			case "MinInt64":
				return Val{T: []string{bvLit(new(big.Int).Lsh(big.NewInt(1), 63), 64)}, Typ: types.Typ[types.Int64]}
			case "MaxUint32":
				return Val{T: []string{bvLitI(1<<32-1, 64)}, Typ: types.Typ[types.Int64]}
			}
		}
		if _, known := ctx.scope[id.Name]; !known {
			for _, imp := range e.prog.Pkg.Types.Imports() {
				if imp.Name() == id.Name {
					if o, ok := imp.Scope().Lookup(x.F).(*types.Const); ok {
						if bi, ok := new(big.Int).SetString(o.Val().ExactString(), 10); ok {
							return e.litFor(bi, o.Type())
						}
					}
				}
			}
		}
	}
	obj := e.eval(ctx, x.X, nil)
	if obj.Typ == nil {
		fail("untyped object in selection .%s", x.F)
	}
	return e.evalFieldOf(ctx, obj, obj.Typ, x.F)
}

func (e *Exec) evalIndex(ctx *evalCtx, x *EIndex) Val {
	b := e.eval(ctx, x.X, nil)
	switch t := under(b.Typ).(type) {
	case *types.Slice:
		i := e.eval(ctx, x.I, types.Typ[types.Int])
		return e.ctxLoad(ctx, e.elemLoc(b.T[0], app("bvadd", b.T[1], to64(i)), t.Elem()))
	case *types.Map:
		k := e.eval(ctx, x.I, t.Key())
		kt := e.mapKeyTerm(t, k)
		present := tAnd(tNot(tEq(b.T[0], "0")), e.ctxMapPresent(ctx, t, b.T[0], kt))
		val := e.ctxMapValue(ctx, t, b.T[0], kt)
		z := e.zeroVal(t.Elem())
		out := Val{Typ: t.Elem()}
		for i := range val.T {
			out.T = append(out.T, tIte(present, val.T[i], z.T[i]))
		}
		return out
	case *types.Basic:
		if isStringType(b.Typ) {
			i := e.eval(ctx, x.I, types.Typ[types.Int])
			return Val{T: []string{e.strAt(b.T[0], to64(i))}, Typ: types.Typ[types.Uint8]}
		}
	}
	fail("cannot index %s", exprString(x.X))
	return Val{}
}

func (e *Exec) ctxMapPresent(ctx *evalCtx, mt *types.Map, m, k string) string {
	if ctx.inOld && ctx.oldHeap != nil {
		saved := ctx.st.old
		ctx.st.old = ctx.oldHeap
		defer func() { ctx.st.old = saved }()
	}
	return e.mapPresent(ctx.st, mt, m, k, ctx.inOld)
}

func (e *Exec) ctxMapValue(ctx *evalCtx, mt *types.Map, m, k string) Val {
	if ctx.inOld && ctx.oldHeap != nil {
		saved := ctx.st.old
		ctx.st.old = ctx.oldHeap
		defer func() { ctx.st.old = saved }()
	}
	return e.mapValue(ctx.st, mt, m, k, ctx.inOld)
}

func to64(v Val) string {
	if v.Typ != nil && isIntType(v.Typ) {
		w := bvWidth(shape(v.Typ)[0].Sort)
		return resize(v.T[0], w, 64, !isUnsigned(v.Typ))
	}
	return v.T[0]
}

func (e *Exec) evalSlice(ctx *evalCtx, x *ESlice) Val {
	b := e.eval(ctx, x.X, nil)
	zero := bvLitI(0, 64)
	if isStringType(b.Typ) {
		lo, hi := zero, e.strLen(b.T[0])
		if x.Lo != nil {
			lo = to64(e.eval(ctx, x.Lo, types.Typ[types.Int]))
		}
		if x.Hi != nil {
			hi = to64(e.eval(ctx, x.Hi, types.Typ[types.Int]))
		}
		return Val{T: []string{e.strSub(b.T[0], lo, hi)}, Typ: b.Typ}
	}
	if _, ok := under(b.Typ).(*types.Slice); ok {
		lo, hi := zero, b.T[2]
		if x.Lo != nil {
			lo = to64(e.eval(ctx, x.Lo, types.Typ[types.Int]))
		}
		if x.Hi != nil {
			hi = to64(e.eval(ctx, x.Hi, types.Typ[types.Int]))
		}
		return Val{T: []string{b.T[0], app("bvadd", b.T[1], lo), app("bvsub", hi, lo), app("bvsub", b.T[3], lo)}, Typ: b.Typ}
	}
	fail("cannot slice %s", exprString(x.X))
	return Val{}
}

func (e *Exec) evalBin(ctx *evalCtx, x *EBin, want types.Type) Val {
	boolT := types.Typ[types.Bool]
	switch x.Op {
	case "&&", "||", "==>", "<==>":
		l := e.eval(ctx, x.L, boolT).T[0]
		r := e.eval(ctx, x.R, boolT).T[0]
		var t string
		switch x.Op {
		case "&&":
			t = tAnd(l, r)
		case "||":
			t = tOr(l, r)
		case "==>":
			t = tImp(l, r)
		default:
			t = tEq(l, r)
		}
		return Val{T: []string{t}, Typ: boolT}
	}
	// evaluate the non-literal side first so that literals take its type
	var l, r Val
	if isLiteral(x.L) && !isLiteral(x.R) {
		r = e.eval(ctx, x.R, nil)
		l = e.eval(ctx, x.L, r.Typ)
	} else {
		lw := want
		if x.Op == "==" || x.Op == "!=" || x.Op == "<" || x.Op == "<=" || x.Op == ">" || x.Op == ">=" {
			lw = nil
		}
		l = e.eval(ctx, x.L, lw)
		r = e.eval(ctx, x.R, l.Typ)
	}
	switch x.Op {
	case "==", "!=":
		var eq string
		if len(l.T) != len(r.T) {
			// nil against composite
			if isNilExpr(x.R) {
				eq = tEq(l.T[0], "0")
			} else if isNilExpr(x.L) {
				eq = tEq(r.T[0], "0")
			} else {
				fail("comparison of different shapes: %s", exprString(x))
			}
		} else if _, isSlice := under(l.Typ).(*types.Slice); isSlice && isNilExpr(x.R) {
			eq = tEq(l.T[0], "0")
		} else if len(l.T) == 2 && types.IsInterface(l.Typ) && (isNilExpr(x.R) || isNilExpr(x.L)) {
			if isNilExpr(x.R) {
				eq = tEq(l.T[0], "0")
			} else {
				eq = tEq(r.T[0], "0")
			}
		} else {
			l, r = e.unifyInts(l, r)
			var cs []string
			for i := range l.T {
				cs = append(cs, tEq(l.T[i], r.T[i]))
			}
			eq = tAnd(cs...)
		}
		if x.Op == "!=" {
			eq = tNot(eq)
		}
		return Val{T: []string{eq}, Typ: boolT}
	}
	if len(l.T) != 1 || len(r.T) != 1 {
		fail("arithmetic on composite values: %s", exprString(x))
	}
	l, r = e.unifyInts(l, r)
	un := l.Typ != nil && isUnsigned(l.Typ)
	// Int-sorted (ghost) arithmetic
	if l.Typ != nil && !isIntType(l.Typ) {
		ops := map[string]string{"+": "+", "-": "-", "*": "*", "<": "<", "<=": "<=", ">": ">", ">=": ">="}
		op, ok := ops[x.Op]
		if !ok {
			fail("operator %s on non-integer", x.Op)
		}
		var t types.Type = boolT
		if op == "+" || op == "-" || op == "*" {
			t = l.Typ
		}
		return Val{T: []string{app(op, l.T[0], r.T[0])}, Typ: t}
	}
	pick := func(s, u string) string {
		if un {
			return u
		}
		return s
	}
	var op string
	var res types.Type = l.Typ
	switch x.Op {
	case "+":
		op = "bvadd"
	case "-":
		op = "bvsub"
	case "*":
		op = "bvmul"
	case "/":
		op = pick("bvsdiv", "bvudiv")
	case "%":
		op = pick("bvsrem", "bvurem")
	case "&":
		op = "bvand"
	case "|":
		op = "bvor"
	case "^":
		op = "bvxor"
	case "<<":
		op = "bvshl"
	case ">>":
		op = pick("bvashr", "bvlshr")
	case "<":
		op, res = pick("bvslt", "bvult"), boolT
	case "<=":
		op, res = pick("bvsle", "bvule"), boolT
	case ">":
		op, res = pick("bvsgt", "bvugt"), boolT
	case ">=":
		op, res = pick("bvsge", "bvuge"), boolT
	default:
		fail("unknown operator %s", x.Op)
	}
	return Val{T: []string{app(op, l.T[0], r.T[0])}, Typ: res}
}

func isNilExpr(x Expr) bool {
	id, ok := x.(*EIdent)
	return ok && id.Name == "nil"
}

// unifyInts reconciles bit-widths of integer operands (contracts are looser
// than Go about mixing int and uint32 etc.): the narrower one is extended.
func (e *Exec) unifyInts(l, r Val) (Val, Val) {
	if l.Typ == nil || r.Typ == nil || !isIntType(l.Typ) || !isIntType(r.Typ) || len(l.T) != 1 || len(r.T) != 1 {
		return l, r
	}
	lw, rw := bvWidth(shape(l.Typ)[0].Sort), bvWidth(shape(r.Typ)[0].Sort)
	if lw == rw {
		return l, r
	}
	if lw < rw {
		return Val{T: []string{resize(l.T[0], lw, rw, !isUnsigned(l.Typ))}, Typ: r.Typ}, r
	}
	return l, Val{T: []string{resize(r.T[0], rw, lw, !isUnsigned(r.Typ))}, Typ: l.Typ}
}

func (e *Exec) evalCall(ctx *evalCtx, x *ECall, want types.Type) Val {
	boolT := types.Typ[types.Bool]
	arg := func(i int, w types.Type) Val {
		if i >= len(x.Args) {
			fail("%s: missing argument %d", x.F, i)
		}
		return e.eval(ctx, x.Args[i], w)
	}
	// spec functions: macro expansion
	if sf, ok := e.cs.SpecFuncs[x.F]; ok {
		if len(sf.Params) != len(x.Args) {
			fail("spec function %s expects %d arguments", x.F, len(sf.Params))
		}
		saved := map[string]*Val{}
		for i, p := range sf.Params {
			v := e.eval(ctx, x.Args[i], nil)
			if old, ok := ctx.scope[p]; ok {
				o := old
				saved[p] = &o
			} else {
				saved[p] = nil
			}
			if ctx.scope == nil {
				ctx.scope = map[string]Val{}
			}
			ctx.scope[p] = v
		}
		r := e.eval(ctx, sf.Body, want)
		for p, o := range saved {
			if o == nil {
				delete(ctx.scope, p)
			} else {
				ctx.scope[p] = *o
			}
		}
		return r
	}
	switch x.F {
	case "old":
		saved := ctx.inOld
		ctx.inOld = true
		v := arg(0, want)
		ctx.inOld = saved
		return v
	case "len":
		v := arg(0, nil)
		switch t := under(v.Typ).(type) {
		case *types.Slice:
			return Val{T: []string{v.T[2]}, Typ: types.Typ[types.Int]}
		case *types.Basic:
			if isStringType(v.Typ) {
				return Val{T: []string{e.strLen(v.T[0])}, Typ: types.Typ[types.Int]}
			}
		case *types.Pointer:
			if namedKey(t.Elem()) == "list.List" {
				lo, hi := e.listBounds(ctx.st, v.T[0], ctx.inOld, ctx.oldHeap)
				return Val{T: []string{app("-", hi, lo)}, Typ: ghostIntT}
			}
		case *types.Map:
			return Val{T: []string{app(e.mapLenFn(), v.T[0], intLit(int64(ctx.st.counts["mapgen"])))}, Typ: types.Typ[types.Int]}
		}
		fail("len of %s", exprString(x.Args[0]))
	case "cap":
		v := arg(0, nil)
		return Val{T: []string{v.T[3]}, Typ: types.Typ[types.Int]}
	case "has":
		m := arg(0, nil)
		mt, ok := m.Typ.Underlying().(*types.Map)
		if !ok {
			fail("has() needs a map")
		}
		k := arg(1, mt.Key())
		return Val{T: []string{tAnd(tNot(tEq(m.T[0], "0")), e.ctxMapPresent(ctx, mt, m.T[0], e.mapKeyTerm(mt, k)))}, Typ: boolT}
	case "isClosed":
		c := arg(0, nil)
		return Val{T: []string{e.chanClosed(ctx.st, c.T[0], ctx.inOld, ctx.oldHeap)}, Typ: boolT}
	case "held", "heldR":
		l := arg(0, nil)
		for _, h := range ctx.st.held {
			if h.Term == l.T[0] && (x.F == "heldR" || !h.Read) {
				return Val{T: []string{"true"}, Typ: boolT}
			}
		}
		return Val{T: []string{"false"}, Typ: boolT}
	case "fresh":
		v := arg(0, nil)
		if e.isFresh(ctx.st, v.T[0]) {
			return Val{T: []string{"true"}, Typ: boolT}
		}
		return Val{T: []string{app(">", v.T[0], "BASE")}, Typ: boolT}
	case "isStatus":
		v := arg(0, nil)
		c := arg(1, types.Typ[types.Uint32])
		return Val{T: []string{tAnd(app(e.isStatusFn(), v.T[0], v.T[1]), tEq(app(e.errCodeFn(), v.T[0], v.T[1]), c.T[0]))}, Typ: boolT}
	case "errCode":
		v := arg(0, nil)
		return Val{T: []string{app(e.errCodeFn(), v.T[0], v.T[1])}, Typ: types.Typ[types.Uint32]}
	case "isStatusErr":
		v := arg(0, nil)
		return Val{T: []string{app(e.isStatusFn(), v.T[0], v.T[1])}, Typ: boolT}
	case "sameArray":
		a, b := arg(0, nil), arg(1, nil)
		return Val{T: []string{tEq(a.T[0], b.T[0])}, Typ: boolT}
	case "offsetOf":
		a := arg(0, nil)
		return Val{T: []string{a.T[1]}, Typ: types.Typ[types.Int]}
	case "sameSlice":
		a, b := arg(0, nil), arg(1, nil)
		return Val{T: []string{tAnd(tEq(a.T[0], b.T[0]), tEq(a.T[1], b.T[1]), tEq(a.T[2], b.T[2]))}, Typ: boolT}
	case "meas":
		v := arg(0, nil)
		return Val{T: []string{e.measTerm(v)}, Typ: types.Typ[types.Uint]}
	case "sum":
		l := arg(0, nil)
		return Val{T: []string{e.listSum(ctx.st, l.T[0], ctx.inOld, ctx.oldHeap)}, Typ: types.Typ[types.Uint]}
	case "qlen":
		l := arg(0, nil)
		lo, hi := e.listBounds(ctx.st, l.T[0], ctx.inOld, ctx.oldHeap)
		return Val{T: []string{app("-", hi, lo)}, Typ: ghostIntT}
	case "qat":
		l := arg(0, nil)
		i := arg(1, ghostIntT)
		lo, _ := e.listBounds(ctx.st, l.T[0], ctx.inOld, ctx.oldHeap)
		return Val{T: []string{e.listElem(ctx.st, l.T[0], app("+", lo, i.T[0]), ctx.inOld, ctx.oldHeap)}, Typ: ghostIntT}
	case "id":
		v := arg(0, nil)
		return Val{T: []string{v.T[len(v.T)-1]}, Typ: ghostIntT}
	case "count":
		// count("event") -> number of times the event happened on this path
		s, ok := x.Args[0].(*EStr)
		if !ok {
			fail("count needs a string literal")
		}
		return Val{T: []string{intLit(int64(ctx.st.counts[s.S]))}, Typ: ghostIntT}
	case "alldigits":
		s := arg(0, nil)
		return Val{T: []string{e.allDigits(ctx.st, s.T[0])}, Typ: boolT}
	case "decval":
		s := arg(0, nil)
		return Val{T: []string{app(e.fun("dec_val", []string{SInt}, SBV(64)), s.T[0])}, Typ: types.Typ[types.Uint64]}
	case "mdGet":
		m := arg(0, nil)
		k := arg(1, types.Typ[types.String])
		return e.mdGet(ctx.st, m.T[0], k.T[0])
	case "as":
		// as(x, T): payload of interface value x viewed as concrete type T (use under an 'x is T' guard)
		v := arg(0, nil)
		id, ok := x.Args[1].(*EIdent)
		var tn string
		if ok {
			tn = id.Name
		} else if sel, ok := x.Args[1].(*ESel); ok {
			tn = exprString(sel)
		} else if un, ok := x.Args[1].(*EUn); ok {
			tn = exprString(un)
		}
		tn = strings.TrimPrefix(tn, "ptr_")
		t := e.lookupType(tn)
		if t == nil {
			fail("as(): unknown type %q", tn)
		}
		if len(v.T) != 2 {
			fail("as() of a non-interface value")
		}
		if types.IsInterface(t) && !isTypeParam(t) {
			return Val{T: []string{v.T[0], v.T[1]}, Typ: t}
		}
		return e.unbox(ctx.st, v.T[1], t)
	case "content":
		v := arg(0, nil)
		slt, ok := under(v.Typ).(*types.Slice)
		if !ok {
			fail("content() of non-slice")
		}
		return Val{T: []string{e.contentOf(ctx.st, v, slt.Elem())}, Typ: ghostIntT}
	case "cat":
		a, b := arg(0, ghostIntT), arg(1, ghostIntT)
		return Val{T: []string{app(e.fun("cat", []string{SInt, SInt}, SInt), a.T[0], b.T[0])}, Typ: ghostIntT}
	case "rcancelled", "rclosed":
		v := arg(0, nil)
		return Val{T: []string{e.recvState(ctx.st, strings.TrimPrefix(x.F, "r"), v.T[len(v.T)-1], ctx.inOld, ctx.oldHeap)}, Typ: boolT}
	case "monitor":
		// monitor(x.mu): the conjunction of the monitor invariants of that lock on that object
		l := arg(0, nil)
		if l.Sub == nil {
			fail("monitor() needs a mutex field")
		}
		ov, t := e.objVal(l.Sub.Owner, l.Sub.Obj)
		tc := e.typeContract(l.Sub.Owner)
		if t == nil || tc == nil {
			fail("monitor(): unknown type %s", l.Sub.Owner)
		}
		var cs []string
		for _, c := range tc.Invariants {
			if c.Lock != l.Sub.Path {
				continue
			}
			sub := &evalCtx{st: ctx.st, self: &ov, selfT: t, scope: map[string]Val{}, inOld: ctx.inOld, oldHeap: ctx.oldHeap}
			cs = append(cs, e.eval(sub, c.Expr, boolT).T[0])
		}
		return Val{T: []string{tAnd(cs...)}, Typ: boolT}
	case "chancap":
		c := arg(0, nil)
		return Val{T: []string{app("select", e.curArr(ctx.st, "chan#cap", arr(SInt, SBV(64))), c.T[0])}, Typ: types.Typ[types.Int]}
	case "visited":
		vis, ok := ctx.st.ghost["$visited"]
		if !ok {
			fail("visited(): no map iteration in progress")
		}
		mt := vis.Typ.Underlying().(*types.Map)
		k := arg(0, mt.Key())
		return Val{T: []string{app("select", vis.T[0], e.mapKeyTerm(mt, k))}, Typ: boolT}
	case "statusProto":
		v := arg(0, nil)
		return Val{T: []string{app(e.fun("status_proto", []string{SInt}, SInt), v.T[0])}, Typ: e.lookupType("*spb.Status")}
	case "statusOf":
		v := arg(0, nil)
		return Val{T: []string{app(e.fun("status_of_err", []string{SInt, SInt}, SInt), v.T[0], v.T[1])}, Typ: e.lookupType("*status.Status")}
	case "statusCode":
		v := arg(0, nil)
		return Val{T: []string{app(e.fun("status_code", []string{SInt}, SBV(32)), v.T[0])}, Typ: types.Typ[types.Uint32]}
	case "cancelOf":
		c := arg(0, nil)
		return Val{T: []string{app(e.fun("cancel_of", []string{SInt}, SInt), c.T[len(c.T)-1])}, Typ: types.Typ[types.UnsafePointer]}
	case "doneOf":
		c := arg(0, nil)
		return Val{T: []string{app(e.fun("ctx_done", []string{SInt}, SInt), c.T[len(c.T)-1])}, Typ: types.Typ[types.UnsafePointer]}
	case "ite":
		c := arg(0, boolT)
		a := arg(1, want)
		b := arg(2, a.Typ)
		out := Val{Typ: a.Typ}
		for i := range a.T {
			out.T = append(out.T, tIte(c.T[0], a.T[i], b.T[i]))
		}
		return out
	case "bound":
		// bound(f, "m", x): f is the method value x.m (a bound-method closure)
		f := arg(0, nil)
		ms, ok := x.Args[1].(*EStr)
		if !ok {
			fail("bound(): second argument must be a method name string")
		}
		recv := arg(2, nil)
		if f.Clo == nil || f.Clo.Fn == nil || len(f.Clo.Bindings) != 1 || f.Clo.Fn.Name() != ms.S+"$bound" {
			return Val{T: []string{"false"}, Typ: boolT}
		}
		return Val{T: []string{tEq(f.Clo.Bindings[0].T[0], recv.T[0])}, Typ: boolT}
	case "isClosure":
		// isClosure(f, "parent$n"): f is that function literal
		f := arg(0, nil)
		ms, ok := x.Args[1].(*EStr)
		if !ok {
			fail("isClosure(): second argument must be a closure name string")
		}
		okc := f.Clo != nil && f.Clo.Fn != nil && (f.Clo.Fn.Name() == ms.S || FuncName(f.Clo.Fn) == ms.S)
		if okc {
			return Val{T: []string{"true"}, Typ: boolT}
		}
		return Val{T: []string{"false"}, Typ: boolT}
	case "mod":
		// mod(a, b) on mathematical integers (SMT-LIB mod: result in [0, |b|))
		a, b := arg(0, ghostIntT), arg(1, ghostIntT)
		return Val{T: []string{app("mod", a.T[0], b.T[0])}, Typ: ghostIntT}
	case "mul128ok":
		// mul128ok(a, b): the signed 64-bit product a*b does not overflow
		a, b := arg(0, types.Typ[types.Int64]), arg(1, types.Typ[types.Int64])
		wa, wb := app("(_ sign_extend 64)", a.T[0]), app("(_ sign_extend 64)", b.T[0])
		p := app("bvmul", wa, wb)
		return Val{T: []string{tEq(p, app("(_ sign_extend 64)", app("(_ extract 63 0)", p)))}, Typ: boolT}
	case "ctxval":
		c := arg(0, nil)
		k := arg(1, nil)
		return e.ctxValue(ctx.st, c, k)
	case "descends":
		c, p := arg(0, nil), arg(1, nil)
		return Val{T: []string{app(e.descendsFn(), c.T[1], p.T[1])}, Typ: boolT}
	case "cancelCalled":
		c := arg(0, nil)
		return Val{T: []string{e.ctxCancelled(ctx.st, c.T[len(c.T)-1], ctx.inOld, ctx.oldHeap)}, Typ: boolT}
	case "won":
		v := arg(0, nil)
		if ctx.st.casWon[v.T[0]] {
			return Val{T: []string{"true"}, Typ: boolT}
		}
		return Val{T: []string{"false"}, Typ: boolT}
	case "atomicLoad":
		v := arg(0, nil)
		if v.Typ == nil {
			fail("atomicLoad of untyped value")
		}
		pt, ok := v.Typ.Underlying().(*types.Pointer)
		if !ok {
			fail("atomicLoad needs an atomic field")
		}
		lv := e.ctxLoad(ctx, e.atomicLoc(v.T[0], pt.Elem()))
		// atomic.Pointer[T] holds a *T
		if n, ok := pt.Elem().(*types.Named); ok && n.Obj().Name() == "Pointer" && n.TypeArgs() != nil && n.TypeArgs().Len() == 1 && len(lv.T) == 1 {
			lv.Typ = types.NewPointer(n.TypeArgs().At(0))
		}
		return lv
	}
	// conversions: uint32(x), int(x), int64(x), uint(x), uint64(x)
	if t := types.Universe.Lookup(x.F); t != nil {
		if tn, ok := t.(*types.TypeName); ok && isIntType(tn.Type()) {
			v := arg(0, tn.Type())
			if v.Typ != nil && isIntType(v.Typ) {
				fw, tw := bvWidth(shape(v.Typ)[0].Sort), bvWidth(shape(tn.Type())[0].Sort)
				return Val{T: []string{resize(v.T[0], fw, tw, !isUnsigned(v.Typ))}, Typ: tn.Type()}
			}
			fail("conversion of non-integer")
		}
	}
	fail("unknown function %s in contract expression", x.F)
	_ = boolT
	return Val{}
}

var ghostIntT types.Type = types.NewNamed(types.NewTypeName(0, nil, "ghostint", nil), types.Typ[types.UnsafePointer], nil)

func (e *Exec) measTerm(v Val) string {
	return app(e.fun("meas", []string{SInt}, SBV(64)), v.T[len(v.T)-1])
}

// allDigits: predicate "every byte of s is an ASCII digit", expanded pointwise
// for strings of at most 9 bytes (enough for the 8-digit gRPC timeout values).
func (e *Exec) allDigits(st *State, s string) string {
	f := e.fun("all_digits", []string{SInt}, SBool)
	t := app(f, s)
	key := "alldigits:" + s
	if !e.abstr[key] && !strings.Contains(s, "|q:") {
		e.abstr[key] = true
		isDigit := func(ch string) string {
			return tAnd(app("bvuge", ch, bvLitI('0', 8)), app("bvule", ch, bvLitI('9', 8)))
		}
		// all_digits(s) ==> every byte is a digit (quantified, triggered by s_at on s)
		i := e.freshName("i")
		e.axioms = append(e.axioms, fmt.Sprintf("(=> (and %s (bvugt %s (_ bv9 64))) (forall ((%s (_ BitVec 64))) (! (=> (bvult %s %s) %s) :pattern (%s))))",
			t, e.strLen(s), i, i, e.strLen(s), isDigit(e.strAt(s, i)), e.strAt(s, i)))
		// !all_digits(s) ==> some byte (a skolem position) is not a digit
		nd := app(e.fun("non_digit_at", []string{SInt}, SBV(64)), s)
		e.axioms = append(e.axioms, tImp(tNot(t), tAnd(app("bvult", nd, e.strLen(s)), tNot(isDigit(e.strAt(s, nd))))))
		// exact pointwise expansion and exact decimal value for strings of at most 9 bytes
		var cs []string
		for k := 0; k < 9; k++ {
			ch := e.strAt(s, bvLitI(int64(k), 64))
			cs = append(cs, tImp(app("bvult", bvLitI(int64(k), 64), e.strLen(s)), isDigit(ch)))
		}
		e.axioms = append(e.axioms, tImp(app("bvule", e.strLen(s), bvLitI(9, 64)), tEq(t, tAnd(cs...))))
		// the decimal value of an n-digit string is below 10^n (n <= 9); the digits
		// themselves are recovered from the value when a counterexample is replayed
		dv := app(e.fun("dec_val", []string{SInt}, SBV(64)), s)
		p10 := int64(1)
		for n := 1; n <= 9; n++ {
			p10 *= 10
			e.axioms = append(e.axioms, tImp(tAnd(t, tEq(e.strLen(s), bvLitI(int64(n), 64))), app("bvult", dv, bvLitI(p10, 64))))
		}
	}
	return t
}

func (e *Exec) mdGet(st *State, md, key string) Val {
	bf := e.fun("md_get_base", []string{SInt, SInt}, SInt)
	lf := e.fun("md_get_len", []string{SInt, SInt}, SBV(64))
	base, ln := app(bf, md, key), app(lf, md, key)
	e.addAxiom(app("bvule", ln, bvLitI(1<<30, 64)))
	return Val{T: []string{base, bvLitI(0, 64), ln, ln}, Typ: types.NewSlice(types.Typ[types.String])}
}
