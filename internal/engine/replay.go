package engine

import (
	"encoding/json"
	"fmt"
	"os"
	"os/exec"
	"path/filepath"
	"strings"
)

// adapterFor maps a function under contract to its real-code replay adapter.
var adapterFor = map[string]string{
	"timeoutFromHeaders":              "timeout",
	"(*defaultSender).send":           "send",
	"(*noFlowControlSender).send":     "send0",
	"(*defaultReceiver).accept":       "accept",
	"(*tunnelServer).createStream":    "createStream",
	"(*tunnelServer).getStream":       "getStreamServer",
	"(*tunnelChannel).getStream":      "getStreamClient",
	"(*tunnelChannel).allocateStream": "allocateStream",
	"(*reverseChannels).pick":         "pick",
	"(*reverseChannels).remove":       "registryRemove",
	"(*reverseChannels).add":          "registryAdd",
	"(*tunnelChannel).Err":            "channelErr",
	"(*tunnelClientStream).readMsg":   "clientReadMsg",
	"(*tunnelServerStream).readMsg":   "serverReadMsg",
	"(*tunnelChannel).recvLoop":       "negotiate",
}

const adapterFile = verifDir + "/replay/adapters/replay_test.go.tmpl"

func init() {
	replayAdapters = append(replayAdapters, func(o CheckOpts, ob *ObligationResult, inputs map[string]string) map[string]any {
		ad, ok := adapterFor[ob.Function]
		if !ok || ob.failing == nil || ob.fr == nil {
			return nil
		}
		// values of the witness terms in the solver's model
		var terms []string
		for _, ts := range ob.failing.Witness {
			terms = append(terms, ts...)
		}
		vals := GetValues(BuildQuery(ob.fr, ob.failing), ob.failRes.Solver, terms, 20)
		w := map[string][]int64{}
		for name, ts := range ob.failing.Witness {
			for _, t := range ts {
				if n, ok := smtValueToInt(vals[t]); ok {
					w[name] = append(w[name], n)
				}
			}
		}
		return runAdapter(o.Repo, ad, w)
	})
}

func runAdapter(repo, adapter string, w map[string][]int64) map[string]any {
	if repo == "" {
		repo = repoDir
	}
	wj, _ := json.Marshal(w)
	tmp, err := os.MkdirTemp("", "gtvreplay")
	if err != nil {
		return map[string]any{"outcome": "not-reproduced", "detail": err.Error()}
	}
	defer os.RemoveAll(tmp)
	ov := filepath.Join(tmp, "overlay.json")
	ovj, _ := json.Marshal(map[string]any{"Replace": map[string]string{filepath.Join(repo, "zz_gtverify_replay_test.go"): adapterFile}})
	os.WriteFile(ov, ovj, 0o644)
	cmd := exec.Command("go", "test", "-overlay", ov, "-vet=off", "-count=1", "-v", "-timeout", "60s", "-run", "^TestGTVReplay$", ".")
	cmd.Dir = repo
	cmd.Env = append(os.Environ(), "GOFLAGS=-mod=mod", "GOPROXY=off", "GTV_ADAPTER="+adapter, "GTV_WITNESS="+string(wj))
	out, _ := cmd.CombinedOutput()
	res := map[string]any{"adapter": adapter, "witness": w, "command": "GTV_ADAPTER=" + adapter + " GTV_WITNESS='" + string(wj) + "' go test -overlay <replay/adapters/replay_test.go.tmpl as zz_gtverify_replay_test.go> -vet=off -count=1 -timeout 60s -run ^TestGTVReplay$ ."}
	for _, l := range strings.Split(string(out), "\n") {
		if strings.HasPrefix(l, "REPLAY-RESULT ") {
			var r map[string]any
			if json.Unmarshal([]byte(strings.TrimPrefix(l, "REPLAY-RESULT ")), &r) == nil {
				for k, v := range r {
					res[k] = v
				}
				return res
			}
		}
	}
	res["outcome"] = "not-reproduced"
	res["detail"] = "adapter produced no result: " + truncate(string(out), 1500)
	return res
}

// ReplayFile re-runs the replay recorded in a replay file.
func ReplayFile(path string) int {
	var rep map[string]any
	if err := loadJSON(path, &rep); err != nil {
		fmt.Println("cannot read replay file:", err)
		return 2
	}
	fmt.Printf("obligation: %v\nclause: %v\nrecorded outcome: %v\n", rep["obligation"], rep["clause"], rep["outcome"])
	r, ok := rep["replay"].(map[string]any)
	if !ok {
		fmt.Println("no real-code replay recorded (no-failing-input-found): the file carries the failed obligation and the solver output")
		return 0
	}
	w := map[string][]int64{}
	if wm, ok := r["witness"].(map[string]any); ok {
		for k, v := range wm {
			if arr, ok := v.([]any); ok {
				for _, x := range arr {
					if f, ok := x.(float64); ok {
						w[k] = append(w[k], int64(f))
					}
				}
			}
		}
	}
	ad, _ := r["adapter"].(string)
	res := runAdapter(repoDir, ad, w)
	b, _ := json.MarshalIndent(res, "", " ")
	fmt.Println(string(b))
	if res["outcome"] == "confirmed" {
		return 1
	}
	return 0
}
