package engine

import (
	"fmt"
	"go/token"
	"go/types"
	"sort"
	"strings"

	"golang.org/x/tools/go/ssa"
)

// Owicki-Gries style thread-modular invariant for defaultSender (C05).
//
// Threads: S = (*defaultSender).send (one instance at a time: s.mu),
//          U = (*defaultSender).updateWindow (one instance at a time: called
//              only from the tunnel's single receive loop; checked below).
// Shared:  w = currentWindow (atomic uint32), n = number of tokens in the
//          1-slot channel windowUpdates.
//
// What is mechanical here:
//  (1) the shared accesses of both functions and the successor relation
//      between them are extracted from the SSA of the current tree and
//      compared with the action schema the invariant is stated over
//      (a new shared access, a different kind of access, or a different
//      successor makes the obligations fail or undecided);
//  (2) the guards of the schema's transitions are local assertions that the
//      symbolic executor proves on the real code (contract clauses tagged C05:
//      the select is reached only with a loaded window of 0, the CAS only
//      with a non-zero one, the token is offered only after a 0 -> positive Add);
//  (3) inductiveness of I1/I2 under every action of either thread, with the
//      other thread at an arbitrary label, is discharged by SMT (bit-vector
//      window, Go's channel semantics for the two selects).
// What is a schema: the effect of each kind of shared access on (w, n).

func init() { extraPasses = append(extraPasses, ogPass) }

type sharedOp struct {
	kind  string // Load CAS Add Store Swap selWait selOffer chanOther
	instr ssa.Instruction
}

func sharedOps(fn *ssa.Function) []sharedOp {
	var out []sharedOp
	isField := func(v ssa.Value, name string) bool {
		switch x := v.(type) {
		case *ssa.FieldAddr:
			su := x.X.Type().Underlying().(*types.Pointer).Elem().Underlying().(*types.Struct)
			return su.Field(x.Field).Name() == name
		case *ssa.UnOp:
			if fa, ok := x.X.(*ssa.FieldAddr); ok && x.Op == token.MUL {
				su := fa.X.Type().Underlying().(*types.Pointer).Elem().Underlying().(*types.Struct)
				return su.Field(fa.Field).Name() == name
			}
		}
		return false
	}
	for _, b := range fn.Blocks {
		if fn.Recover != nil && b == fn.Recover {
			continue
		}
		for _, in := range b.Instrs {
			switch x := in.(type) {
			case *ssa.Call:
				if f, ok := x.Call.Value.(*ssa.Function); ok && len(x.Call.Args) > 0 && isField(x.Call.Args[0], "currentWindow") {
					k := f.Name()
					switch k {
					case "CompareAndSwap":
						k = "CAS"
					}
					out = append(out, sharedOp{k, x})
				}
			case *ssa.Select:
				onTok := false
				for _, s := range x.States {
					onTok = onTok || isField(s.Chan, "windowUpdates")
				}
				if !onTok {
					continue
				}
				switch {
				case x.Blocking && len(x.States) == 2 && x.States[0].Dir == types.RecvOnly && x.States[1].Dir == types.RecvOnly:
					out = append(out, sharedOp{"selWait", x})
				case !x.Blocking && len(x.States) == 1 && x.States[0].Dir == types.SendOnly:
					out = append(out, sharedOp{"selOffer", x})
				default:
					out = append(out, sharedOp{"chanOther", x})
				}
			case *ssa.Send:
				if isField(x.Chan, "windowUpdates") {
					out = append(out, sharedOp{"chanOther", x})
				}
			case *ssa.UnOp:
				if x.Op == token.ARROW && isField(x.X, "windowUpdates") {
					out = append(out, sharedOp{"chanOther", x})
				}
			}
		}
	}
	return out
}

// nextOps: for each shared op (and the entry, key nil) the kinds of shared ops
// (or "exit") reachable without crossing another shared op.
func nextOps(fn *ssa.Function, ops []sharedOp) map[string][]string {
	opAt := map[ssa.Instruction]string{}
	for _, o := range ops {
		opAt[o.instr] = o.kind
	}
	res := map[string]map[string]bool{}
	var walk func(b *ssa.BasicBlock, from int, src string, seen map[*ssa.BasicBlock]bool)
	walk = func(b *ssa.BasicBlock, from int, src string, seen map[*ssa.BasicBlock]bool) {
		for i := from; i < len(b.Instrs); i++ {
			in := b.Instrs[i]
			if k, ok := opAt[in]; ok {
				res[src][k] = true
				return
			}
			if _, ok := in.(*ssa.Return); ok {
				res[src]["exit"] = true
				return
			}
		}
		for _, s := range b.Succs {
			if fn.Recover != nil && s == fn.Recover {
				continue
			}
			if !seen[s] {
				seen[s] = true
				walk(s, 0, src, seen)
			}
		}
	}
	res["entry"] = map[string]bool{}
	walk(fn.Blocks[0], 0, "entry", map[*ssa.BasicBlock]bool{fn.Blocks[0]: true})
	for _, o := range ops {
		if res[o.kind] == nil {
			res[o.kind] = map[string]bool{}
		}
		b := o.instr.Block()
		idx := 0
		for i, in := range b.Instrs {
			if in == o.instr {
				idx = i
			}
		}
		walk(b, idx+1, o.kind, map[*ssa.BasicBlock]bool{})
	}
	out := map[string][]string{}
	for k, m := range res {
		for n := range m {
			out[k] = append(out[k], n)
		}
		sort.Strings(out[k])
	}
	return out
}

func ogPass(prog *Program, cs *Contracts, prop string) []*FuncResult {
	if prop != "C05" {
		return nil
	}
	props := []string{"C05"}
	fr := &FuncResult{Name: "pass:og"}
	send := prog.Funcs["(*defaultSender).send"]
	upd := prog.Funcs["(*defaultSender).updateWindow"]
	if send == nil || upd == nil {
		passInst(fr, prog, "(*defaultSender)", "og", "threads-exist", props, "send and updateWindow exist", false, token.NoPos)
		return []*FuncResult{fr}
	}
	// (1) schema conformance
	sOps, uOps := sharedOps(send), sharedOps(upd)
	kinds := func(ops []sharedOp) string {
		var ks []string
		for _, o := range ops {
			ks = append(ks, o.kind)
		}
		sort.Strings(ks)
		return strings.Join(ks, ",")
	}
	passInst(fr, prog, "(*defaultSender).send", "og-schema", "accesses", props,
		"shared accesses of send are exactly {Load, selWait(windowUpdates|ctx.Done), CAS}; found {"+kinds(sOps)+"}", kinds(sOps) == "CAS,Load,selWait", send.Pos())
	passInst(fr, prog, "(*defaultSender).updateWindow", "og-schema", "accesses", props,
		"shared accesses of updateWindow are exactly {Add, selOffer(windowUpdates, default)}; found {"+kinds(uOps)+"}", kinds(uOps) == "Add,selOffer", upd.Pos())
	for _, pair := range []struct {
		n   string
		ops []sharedOp
		f   *ssa.Function
	}{{"(*defaultSender).send", sOps, send}, {"(*defaultSender).updateWindow", uOps, upd}} {
		plain := false
		for _, o := range pair.ops {
			plain = plain || o.kind == "Store" || o.kind == "Swap"
		}
		passInst(fr, prog, pair.n, "og", "no-plain-store", props, "the shared window is never overwritten by a plain Store/Swap (credit and reservations are atomic read-modify-write operations, so no update can be lost)", !plain, pair.f.Pos())
	}
	wantS := map[string]string{"entry": "Load,exit", "Load": "CAS,selWait", "selWait": "Load,exit", "CAS": "Load,exit"}
	gotS := nextOps(send, sOps)
	for _, k := range []string{"entry", "Load", "selWait", "CAS"} {
		passInst(fr, prog, "(*defaultSender).send", "og-schema", "next/"+k, props,
			fmt.Sprintf("after %s the next shared access of send is one of {%s}; found {%s}", k, wantS[k], strings.Join(gotS[k], ",")), strings.Join(gotS[k], ",") == wantS[k], send.Pos())
	}
	wantU := map[string]string{"entry": "Add,exit", "Add": "exit,selOffer", "selOffer": "exit"}
	gotU := nextOps(upd, uOps)
	for _, k := range []string{"entry", "Add", "selOffer"} {
		passInst(fr, prog, "(*defaultSender).updateWindow", "og-schema", "next/"+k, props,
			fmt.Sprintf("after %s the next shared access of updateWindow is one of {%s}; found {%s}", k, wantU[k], strings.Join(gotU[k], ",")), strings.Join(gotU[k], ",") == wantU[k], upd.Pos())
	}
	// (2) the local assertions that justify the guards exist in the contracts (they are proved by
	//     the symbolic executor as ordinary C05 obligations of send / updateWindow / newSender)
	need := []struct{ fn, label string }{
		{"(*defaultSender).send", "waitonlyatzero"}, {"(*defaultSender).send", "casnonzero"},
		{"(*defaultSender).updateWindow", "offeronlyafterzero"}, {"(*defaultSender).updateWindow", "addnonzero"},
		{"newSender", "oneslot"},
	}
	for _, nd := range need {
		found := false
		if fc := cs.Funcs[nd.fn]; fc != nil {
			for _, c := range append(append([]*Clause{}, fc.At...), fc.Ensures...) {
				found = found || (c.Label == nd.label && c.HasProp("C05"))
			}
		}
		passInst(fr, prog, nd.fn, "og-local", "declared/"+nd.label, props, "local assertion @"+nd.label+" (guard of the action schema) is a C05 clause of "+nd.fn, found, token.NoPos)
	}
	// single instance of U: updateWindow is only called from frame handlers of the receive loop
	callers := map[string]bool{}
	for _, n := range prog.SortedFuncNames() {
		f := prog.Funcs[n]
		for _, b := range f.Blocks {
			for _, in := range b.Instrs {
				if c, ok := in.(*ssa.Call); ok && c.Call.IsInvoke() && c.Call.Method.Name() == "updateWindow" && ifaceName(c.Call.Value.Type()) == "sender" {
					callers[n] = true
				}
			}
		}
	}
	var cl []string
	for c := range callers {
		cl = append(cl, c)
	}
	sort.Strings(cl)
	passInst(fr, prog, "(*defaultSender).updateWindow", "og-schema", "single-updater", props,
		"sender.updateWindow is invoked only by the two frame handlers that run on the tunnel's single receive loop; callers: "+strings.Join(cl, ", "),
		strings.Join(cl, ", ") == "(*tunnelClientStream).acceptServerFrame, (*tunnelServerStream).acceptClientFrame", token.NoPos)

	// (3) inductiveness of the invariant over the schema's transition system
	//   pcS: 0 idle, 1 L (before Load), 2 W (before selWait), 3 C (before CAS), 4 X (between CAS and next Load/exit)
	//   pcU: 0 idle, 1 A (before Add), 2 T (before selOffer)
	//   w: BV32, n: Int (tokens), lw: loaded window (local of S), old/new: CAS operands, add/prev: locals of U
	decl := []string{
		"(declare-fun pcS () Int)", "(declare-fun pcU () Int)", "(declare-fun w () (_ BitVec 32))", "(declare-fun n () Int)",
		"(declare-fun lw () (_ BitVec 32))", "(declare-fun chunk () (_ BitVec 32))", "(declare-fun add () (_ BitVec 32))", "(declare-fun prev () (_ BitVec 32))",
		"(declare-fun pcS2 () Int)", "(declare-fun pcU2 () Int)", "(declare-fun w2 () (_ BitVec 32))", "(declare-fun n2 () Int)",
		"(declare-fun lw2 () (_ BitVec 32))", "(declare-fun prev2 () (_ BitVec 32))",
	}
	zero := "(_ bv0 32)"
	inv := func(pcS, pcU, w, n, lw, prev string) string {
		return tAnd(
			app("and", app(">=", n, "0"), app("<=", n, "1")),                                       // I0: one-slot channel
			tImp(tEq(pcS, "2"), tEq(lw, zero)),                                                       // local of S at W (@waitonlyatzero)
			tImp(tEq(pcS, "3"), tNot(tEq(lw, zero))),                                                 // local of S at C (@casnonzero)
			tImp(tEq(pcU, "2"), tEq(prev, zero)),                                                     // local of U at T (@offeronlyafterzero)
			tImp(tAnd(tEq(pcS, "2"), tNot(tEq(w, zero))), tOr(tEq(n, "1"), tEq(pcU, "2"))),          // I2: no lost wake-up
			app("and", app(">=", pcS, "0"), app("<=", pcS, "4"), app(">=", pcU, "0"), app("<=", pcU, "2")),
		)
	}
	I := inv("pcS", "pcU", "w", "n", "lw", "prev")
	I2 := inv("pcS2", "pcU2", "w2", "n2", "lw2", "prev2")
	frameS := tAnd(tEq("pcU2", "pcU"), tEq("prev2", "prev")) // S's actions leave U's pc and locals alone
	frameU := tAnd(tEq("pcS2", "pcS"), tEq("lw2", "lw"))
	type action struct{ name, rel string }
	acts := []action{
		{"S:call", tAnd(tEq("pcS", "0"), tEq("pcS2", "1"), tEq("w2", "w"), tEq("n2", "n"), tEq("lw2", "lw"), frameS)},
		{"S:Load", tAnd(tEq("pcS", "1"), tEq("lw2", "w"), tIte(tEq("w", zero), tEq("pcS2", "2"), tEq("pcS2", "3")), tEq("w2", "w"), tEq("n2", "n"), frameS)},
		{"S:selWait/token", tAnd(tEq("pcS", "2"), app(">", "n", "0"), tEq("n2", app("-", "n", "1")), tEq("pcS2", "1"), tEq("w2", "w"), tEq("lw2", "lw"), frameS)},
		{"S:selWait/ctxDone", tAnd(tEq("pcS", "2"), tEq("pcS2", "0"), tEq("w2", "w"), tEq("n2", "n"), tEq("lw2", "lw"), frameS)},
		{"S:CAS/ok", tAnd(tEq("pcS", "3"), tEq("w", "lw"), app("bvule", "chunk", "lw"), tEq("w2", app("bvsub", "lw", "chunk")), tEq("pcS2", "4"), tEq("n2", "n"), tEq("lw2", "lw"), frameS)},
		{"S:CAS/fail", tAnd(tEq("pcS", "3"), tNot(tEq("w", "lw")), tEq("w2", "w"), tEq("pcS2", "1"), tEq("n2", "n"), tEq("lw2", "lw"), frameS)},
		{"S:sent", tAnd(tEq("pcS", "4"), tOr(tEq("pcS2", "1"), tEq("pcS2", "0")), tEq("w2", "w"), tEq("n2", "n"), tEq("lw2", "lw"), frameS)},
		{"U:call", tAnd(tEq("pcU", "0"), tIte(tEq("add", zero), tEq("pcU2", "0"), tEq("pcU2", "1")), tEq("w2", "w"), tEq("n2", "n"), tEq("prev2", "prev"), frameU)},
		{"U:Add", tAnd(tEq("pcU", "1"), tNot(tEq("add", zero)), tEq("prev2", "w"), tEq("w2", app("bvadd", "w", "add")),
			// no over-credit: the peer returns at most what it received, so the window does not wrap
			app("bvuge", app("bvadd", "w", "add"), "w"),
			tIte(tEq("w", zero), tEq("pcU2", "2"), tEq("pcU2", "0")), tEq("n2", "n"), frameU)},
		{"U:selOffer", tAnd(tEq("pcU", "2"), tIte(app("<", "n", "1"), tEq("n2", "1"), tEq("n2", "n")), tEq("pcU2", "0"), tEq("w2", "w"), tEq("prev2", "prev"), frameU)},
	}
	mk := func(name, clause string, assumes []string, goal string) {
		fr.Insts = append(fr.Insts, &Instance{Name: "(*defaultSender)/og/" + name, Kind: "og", Func: "(*defaultSender)", Props: props, Clause: clause, Assumes: assumes, Goal: goal})
	}
	fr.Decls = decl
	mk("init", "invariant holds initially (both threads idle, window = W0, channel empty)",
		[]string{tEq("pcS", "0"), tEq("pcU", "0"), tEq("n", "0")}, I)
	for _, a := range acts {
		mk("preserved/"+a.name, "I0 /\\ locals /\\ I2 (a sender waiting with a non-zero window has a token pending or about to be offered) is preserved by action "+a.name+" with the other thread at any label",
			[]string{I, a.rel}, I2)
	}
	// the liveness reading's safety premise: a sender reaches the wait only having seen window 0,
	// and after consuming the token it re-reads the window (next access after selWait is Load)
	return []*FuncResult{fr}
}
