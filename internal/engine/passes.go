package engine

import (
	"fmt"
	"go/token"
	"go/types"
	"sort"
	"strings"

	"golang.org/x/tools/go/ssa"
)

// Whole-package passes. Each contributes obligations in the same format as the
// symbolic executor (an Instance whose goal is already decided, "true" or
// "false"), so that naming, ledger, verdicts and evidence are uniform.

func init() {
	extraPasses = append(extraPasses, sweepPass, effectsPass, goroutinePass, disciplinePass, refinementPass, lemmaPass)
}

func passInst(fr *FuncResult, prog *Program, fn string, kind, anchor string, props []string, clause string, ok bool, pos token.Pos) {
	goal := "false"
	if ok {
		goal = "true"
	}
	in := &Instance{Name: fn + "/" + kind + "/" + anchor, Kind: kind, Func: fn, Props: props, Clause: clause, Goal: goal}
	if pos.IsValid() {
		in.Pos = prog.Fset.Position(pos)
	}
	fr.Insts = append(fr.Insts, in)
}

// ---------------------------------------------------------------------------
// call graph helpers
// ---------------------------------------------------------------------------

// implementations of an interface method inside the package, by method name.
func implsOf(prog *Program, method string) []*ssa.Function {
	var out []*ssa.Function
	for name, f := range prog.Funcs {
		if f.Signature.Recv() != nil && f.Name() == method && !strings.Contains(name, "$") {
			out = append(out, f)
		}
	}
	sort.Slice(out, func(i, j int) bool { return FuncName(out[i]) < FuncName(out[j]) })
	return out
}

func localFunc(prog *Program, f *ssa.Function) *ssa.Function {
	if f == nil {
		return nil
	}
	if o := f.Origin(); o != nil {
		f = o
	}
	if !isLocal(f) {
		return nil
	}
	if g, ok := prog.Funcs[FuncName(f)]; ok {
		return g
	}
	return f
}

type callEdge struct {
	callee *ssa.Function
	viaGo  bool
	instr  ssa.Instruction
	iface  string // non-empty: resolved from an interface invoke "I.m"
}

// edges lists the in-package callees of fn: static calls, closures it creates
// and calls/defers/spawns, invokes resolved to package implementations.
func edges(prog *Program, fn *ssa.Function) []callEdge {
	var out []callEdge
	add := func(cc *ssa.CallCommon, instr ssa.Instruction, viaGo bool) {
		if cc.IsInvoke() {
			in := ifaceName(cc.Value.Type())
			if i := strings.Index(in, "["); i >= 0 {
				in = in[:i]
			}
			if in == "receiver" || in == "sender" {
				for _, impl := range implsOf(prog, cc.Method.Name()) {
					rn := FuncName(impl)
					if (in == "receiver" && strings.Contains(rn, "Receiver")) || (in == "sender" && strings.Contains(rn, "Sender")) {
						out = append(out, callEdge{impl, viaGo, instr, in + "." + cc.Method.Name()})
					}
				}
			}
			return
		}
		switch v := cc.Value.(type) {
		case *ssa.Function:
			if lf := localFunc(prog, v); lf != nil {
				out = append(out, callEdge{lf, viaGo, instr, ""})
			}
		case *ssa.MakeClosure:
			if lf := localFunc(prog, v.Fn.(*ssa.Function)); lf != nil {
				out = append(out, callEdge{lf, viaGo, instr, ""})
			}
		}
	}
	for _, b := range fn.Blocks {
		if fn.Recover != nil && b == fn.Recover {
			continue
		}
		for _, in := range b.Instrs {
			switch x := in.(type) {
			case *ssa.Call:
				add(&x.Call, x, false)
			case *ssa.Defer:
				add(&x.Call, x, false)
			case *ssa.Go:
				add(&x.Call, x, true)
			}
		}
	}
	return out
}

// funcfield closures: values stored into sendFunc / measure / updateWindow /
// tearDown / isClosing are reached through the field, not through an edge; the
// roots below name them explicitly where a pass needs them.

// ---------------------------------------------------------------------------
// C09: zero-annotation no-panic sweep
// ---------------------------------------------------------------------------

var sweepRoots = []string{"(*tunnelServer).serve", "(*tunnelChannel).recvLoop",
	"(*tunnelServerStream).RecvMsg", "(*tunnelClientStream).RecvMsg", "(*tunnelClientStream).Header", "(*tunnelClientStream).Trailer",
	"(*tunnelServer).createStream$2", "(*tunnelChannel).allocateStream$2", // measure closures see peer frames
}

func sweepSet(prog *Program) []string {
	seen := map[string]bool{}
	var order []string
	var visit func(f *ssa.Function)
	visit = func(f *ssa.Function) {
		n := FuncName(f)
		if seen[n] {
			return
		}
		seen[n] = true
		order = append(order, n)
		for _, e := range edges(prog, f) {
			if e.viaGo && (strings.Contains(FuncName(e.callee), "serveStream") && !strings.Contains(FuncName(e.callee), "$")) {
				continue // the handler goroutine runs application code, not peer-frame handling
			}
			visit(e.callee)
		}
	}
	for _, r := range sweepRoots {
		if f := prog.Funcs[r]; f != nil {
			visit(f)
		}
	}
	sort.Strings(order)
	return order
}

func sweepPass(prog *Program, cs *Contracts, prop string) []*FuncResult {
	if prop != "C09" {
		return nil
	}
	var out []*FuncResult
	inv := &FuncResult{Name: "pass:sweep"}
	for _, n := range sweepSet(prog) {
		fn := prog.Funcs[n]
		fc := cs.Funcs[n]
		if fc != nil && fc.HasNoPanic {
			covered := false
			for _, p := range fc.NoPanicProps {
				covered = covered || p == "C09"
			}
			if covered {
				passInst(inv, prog, n, "sweep", "covered-by-contract", []string{"C09"}, "no-panic obligations of this function are generated from its contract", true, fn.Pos())
				continue
			}
		}
		if fc != nil && fc.Inline {
			passInst(inv, prog, n, "sweep", "inlined-into-callers", []string{"C09"}, "verified in the context of each caller", true, fn.Pos())
			continue
		}
		if fc == nil && fn.Parent() != nil && len(loopsOfFn(fn)) == 0 && len(fn.Blocks) <= 12 {
			// small closure without a contract: the executor inlines it where it is called or deferred
			passInst(inv, prog, n, "sweep", "inlined-into-parent", []string{"C09"}, "closure verified in the context of its parent", true, fn.Pos())
			continue
		}
		fr := VerifyFunction(prog, cs, fn, true, []string{"C09"})
		// only the no-panic obligations of a swept function belong to C09 here
		var keep []*Instance
		for _, in := range fr.Insts {
			if in.Kind == "nopanic" {
				in.Props = []string{"C09"}
				keep = append(keep, in)
			}
		}
		fr.Insts = keep
		if len(keep) == 0 {
			passInst(fr, prog, n, "sweep", "no-panicking-instruction", []string{"C09"}, "the function contains no instruction that can panic on any input", true, fn.Pos())
		}
		out = append(out, fr)
	}
	return append(out, inv)
}

// ---------------------------------------------------------------------------
// C03 / C05: effects (nosend, nowait) on the receive-loop goroutines
// ---------------------------------------------------------------------------

type effectInfo struct {
	sends  []token.Pos // carrier Send/SendMsg/CloseSend/SendHeader on this goroutine
	blocks []token.Pos // blocking channel op, cond.Wait, wg.Wait, carrier Recv
}

func directEffects(fn *ssa.Function) effectInfo {
	var ei effectInfo
	for _, b := range fn.Blocks {
		if fn.Recover != nil && b == fn.Recover {
			continue
		}
		for _, in := range b.Instrs {
			switch x := in.(type) {
			case *ssa.Select:
				if x.Blocking {
					ei.blocks = append(ei.blocks, x.Pos())
				}
			case *ssa.Send:
				ei.blocks = append(ei.blocks, x.Pos())
			case *ssa.UnOp:
				if x.Op == token.ARROW {
					ei.blocks = append(ei.blocks, x.Pos())
				}
			case *ssa.Call, *ssa.Defer:
				var cc *ssa.CallCommon
				if c, ok := x.(*ssa.Call); ok {
					cc = &c.Call
				} else {
					cc = &x.(*ssa.Defer).Call
				}
				if cc.IsInvoke() {
					in := ifaceName(cc.Value.Type())
					if isCarrier(in) {
						switch cc.Method.Name() {
						case "Send", "SendMsg", "CloseSend", "SendHeader":
							ei.sends = append(ei.sends, x.Pos())
						case "Recv", "RecvMsg", "Header":
							ei.blocks = append(ei.blocks, x.Pos())
						}
					}
				} else if f, ok := cc.Value.(*ssa.Function); ok {
					switch calleeFullName(f) {
					case "(*sync.Cond).Wait", "(*sync.WaitGroup).Wait":
						ei.blocks = append(ei.blocks, x.Pos())
					}
					// embedded carrier interface promoted through a wrapper struct
					if strings.Contains(f.String(), "TunnelService_") && (f.Name() == "Send" || f.Name() == "SendMsg" || f.Name() == "CloseSend") {
						ei.sends = append(ei.sends, x.Pos())
					}
				}
			}
		}
	}
	return ei
}

func declares(fc *FuncContract, eff string) bool {
	if fc == nil {
		return false
	}
	for _, e := range fc.Effects {
		if e == eff {
			return true
		}
	}
	return false
}

func effectsPass(prog *Program, cs *Contracts, prop string) []*FuncResult {
	if prop != "C03" && prop != "C05" && prop != "C10" {
		return nil
	}
	props := []string{"C03", "C05", "C10"}
	fr := &FuncResult{Name: "pass:effects"}
	// 1. every function that declares nosend/nowait must satisfy it given its callees' declarations
	for _, n := range sortedFuncNames(cs) {
		fc := cs.Funcs[n]
		fn := prog.Funcs[n]
		if fn == nil {
			continue
		}
		for _, eff := range []string{"nosend", "nowait"} {
			if !declares(fc, eff) {
				continue
			}
			ok, why := checkEffect(prog, cs, fn, eff, map[string]bool{})
			passInst(fr, prog, n, "effect", eff, props, "declared effect '"+eff+"' covers the body and every callee that runs on the same goroutine"+why, ok, fn.Pos())
		}
	}
	// 2. the two receive loops: everything they call on their own goroutine is nosend and nowait
	//    (apart from the carrier Recv they exist for)
	for _, root := range []string{"(*tunnelServer).serve", "(*tunnelChannel).recvLoop"} {
		fn := prog.Funcs[root]
		if fn == nil {
			passInst(fr, prog, root, "effect", "onloop", props, "receive loop exists", false, token.NoPos)
			continue
		}
		ei := directEffects(fn)
		passInst(fr, prog, root, "effect", "onloop/nosend-direct", props, "the receive loop itself performs no carrier send (replies are sent from separate goroutines)", len(ei.sends) == 0, firstPos(ei.sends, fn.Pos()))
		// blocking in the loop itself: only the carrier Recv
		nonRecv := 0
		for _, b := range fn.Blocks {
			for _, in := range b.Instrs {
				switch x := in.(type) {
				case *ssa.Select:
					if x.Blocking {
						nonRecv++
					}
				case *ssa.Send:
					nonRecv++
				case *ssa.UnOp:
					if x.Op == token.ARROW {
						nonRecv++
					}
				}
			}
		}
		passInst(fr, prog, root, "effect", "onloop/nowait-direct", props, "the receive loop blocks only in the carrier Recv", nonRecv == 0, fn.Pos())
		for _, e := range edges(prog, fn) {
			if e.viaGo {
				continue
			}
			cn := FuncName(e.callee)
			cfc := cs.Funcs[cn]
			for _, eff := range []string{"nosend", "nowait"} {
				ok := declares(cfc, eff)
				why := ""
				if !ok {
					// not declared: check the body directly (thin helpers)
					ok, why = checkEffect(prog, cs, e.callee, eff, map[string]bool{})
				}
				if cn == "(*noFlowControlReceiver).accept" && eff == "nowait" {
					continue // revision zero has head-of-line blocking by design; the statement exempts it
				}
				passInst(fr, prog, root, "effect", "onloop/"+eff+"/"+cn, props, "callee "+cn+" of the receive loop is "+eff+why, ok, e.instr.Pos())
			}
		}
	}
	// 3. credit frames are never sent from the receive loop: dequeue (the only caller of the
	//    updateWindow funcfield) is not reachable from the loops on their goroutine
	for _, root := range []string{"(*tunnelServer).serve", "(*tunnelChannel).recvLoop"} {
		reach := reachableSameGoroutine(prog, prog.Funcs[root])
		_, bad := reach["(*defaultReceiver).dequeue"]
		passInst(fr, prog, root, "effect", "onloop/no-dequeue", props, "dequeue (and with it every window-update send) is never called from the receive loop", !bad, token.NoPos)
	}
	return []*FuncResult{fr}
}

func firstPos(ps []token.Pos, def token.Pos) token.Pos {
	if len(ps) > 0 {
		return ps[0]
	}
	return def
}

func sortedFuncNames(cs *Contracts) []string {
	var ns []string
	for n := range cs.Funcs {
		if !strings.HasPrefix(n, "ff:") && !strings.HasPrefix(n, "if:") {
			ns = append(ns, n)
		}
	}
	sort.Strings(ns)
	return ns
}

func checkEffect(prog *Program, cs *Contracts, fn *ssa.Function, eff string, visiting map[string]bool) (bool, string) {
	n := FuncName(fn)
	if visiting[n] {
		return true, ""
	}
	visiting[n] = true
	ei := directEffects(fn)
	if eff == "nosend" && len(ei.sends) > 0 {
		return false, fmt.Sprintf(" [%s sends on the carrier at %s]", n, prog.Fset.Position(ei.sends[0]))
	}
	if eff == "nowait" && len(ei.blocks) > 0 {
		return false, fmt.Sprintf(" [%s blocks at %s]", n, prog.Fset.Position(ei.blocks[0]))
	}
	for _, e := range edges(prog, fn) {
		if e.viaGo {
			continue
		}
		cn := FuncName(e.callee)
		if cn == "(*noFlowControlReceiver).accept" && eff == "nowait" {
			continue
		}
		if declares(cs.Funcs[cn], eff) {
			continue
		}
		if ok, why := checkEffect(prog, cs, e.callee, eff, visiting); !ok {
			return false, why
		}
	}
	return true, ""
}

func reachableSameGoroutine(prog *Program, root *ssa.Function) map[string]bool {
	seen := map[string]bool{}
	if root == nil {
		return seen
	}
	var visit func(f *ssa.Function)
	visit = func(f *ssa.Function) {
		n := FuncName(f)
		if seen[n] {
			return
		}
		seen[n] = true
		for _, e := range edges(prog, f) {
			if !e.viaGo {
				visit(e.callee)
			}
		}
	}
	visit(root)
	return seen
}

// ---------------------------------------------------------------------------
// C14: goroutine inventory
// ---------------------------------------------------------------------------

func goroutinePass(prog *Program, cs *Contracts, prop string) []*FuncResult {
	if prop != "C14" && prop != "C04" {
		return nil
	}
	props := []string{"C14", "C04"}
	fr := &FuncResult{Name: "pass:goroutines"}
	listed := map[string]GoEntry{}
	for _, g := range cs.Goroutines {
		listed[g.Site] = g
	}
	found := map[string]bool{}
	for _, n := range prog.SortedFuncNames() {
		fn := prog.Funcs[n]
		k := 0
		var gos []*ssa.Go
		for _, b := range fn.Blocks {
			for _, in := range b.Instrs {
				if g, ok := in.(*ssa.Go); ok {
					gos = append(gos, g)
				}
			}
		}
		sort.Slice(gos, func(i, j int) bool { return gos[i].Pos() < gos[j].Pos() })
		for _, g := range gos {
			k++
			site := fmt.Sprintf("%s#%d", n, k)
			found[site] = true
			ge, ok := listed[site]
			passInst(fr, prog, n, "goroutine", fmt.Sprintf("listed/go#%d", k), props, "every go statement of the package is in the goroutine inventory with an exit class", ok, g.Pos())
			if !ok {
				continue
			}
			var target *ssa.Function
			switch v := g.Call.Value.(type) {
			case *ssa.Function:
				target = localFunc(prog, v)
			case *ssa.MakeClosure:
				target = localFunc(prog, v.Fn.(*ssa.Function))
			}
			if target == nil {
				continue
			}
			loops := len(loopsOfFn(target)) > 0
			ei := directEffects(target)
			switch ge.Class {
			case "sends":
				passInst(fr, prog, n, "goroutine", fmt.Sprintf("class/go#%d/loopfree", k), props, "a reply goroutine is loop-free (it cannot retry forever)", !loops, g.Pos())
				passInst(fr, prog, n, "goroutine", fmt.Sprintf("class/go#%d/sendsonly", k), props, "a reply goroutine blocks only in its (at most two) carrier sends", len(ei.blocks) == 0 && len(ei.sends) <= 2, g.Pos())
			case "ctx":
				passInst(fr, prog, n, "goroutine", fmt.Sprintf("class/go#%d/loopfree", k), props, "a watcher goroutine is loop-free", !loops, g.Pos())
				passInst(fr, prog, n, "goroutine", fmt.Sprintf("class/go#%d/onewait", k), props, "a watcher goroutine has exactly one blocking wait (on the stream context) and sends nothing itself", len(ei.blocks) == 1 && len(ei.sends) == 0, g.Pos())
			case "carrier-end", "handler-return":
				// exit events are established by the contracts named in the inventory text
			default:
				passInst(fr, prog, n, "goroutine", fmt.Sprintf("class/go#%d/known", k), props, "exit class is one of sends / ctx / carrier-end / handler-return", false, g.Pos())
			}
		}
	}
	for site := range listed {
		if !found[site] {
			passInst(fr, prog, site, "goroutine", "stale", props, "inventory entry refers to an existing go statement", false, token.NoPos)
		}
	}
	return []*FuncResult{fr}
}

func loopsOfFn(fn *ssa.Function) map[*ssa.BasicBlock]bool {
	out := map[*ssa.BasicBlock]bool{}
	for _, b := range fn.Blocks {
		for _, s := range b.Succs {
			if s.Dominates(b) {
				out[s] = true
			}
		}
	}
	return out
}

// ---------------------------------------------------------------------------
// C15: field disciplines and lockset
// ---------------------------------------------------------------------------

type lockKey struct {
	obj   ssa.Value
	field string
}

// mustLocks computes, for every instruction, the set of (object, mutex field)
// locks certainly held (W or R), by forward dataflow with intersection.
func mustLocks(fn *ssa.Function, entry map[lockKey]string) map[ssa.Instruction]map[lockKey]string {
	in := map[*ssa.BasicBlock]map[lockKey]string{}
	out := map[ssa.Instruction]map[lockKey]string{}
	if len(fn.Blocks) == 0 {
		return out
	}
	clone := func(m map[lockKey]string) map[lockKey]string {
		n := map[lockKey]string{}
		for k, v := range m {
			n[k] = v
		}
		return n
	}
	in[fn.Blocks[0]] = clone(entry)
	work := []*ssa.BasicBlock{fn.Blocks[0]}
	visited := map[*ssa.BasicBlock]bool{}
	for len(work) > 0 {
		b := work[0]
		work = work[1:]
		cur := clone(in[b])
		for _, ins := range b.Instrs {
			out[ins] = clone(cur)
			c, ok := ins.(*ssa.Call)
			if !ok {
				continue
			}
			f, ok := c.Call.Value.(*ssa.Function)
			if !ok || len(c.Call.Args) == 0 {
				continue
			}
			fa, ok := c.Call.Args[0].(*ssa.FieldAddr)
			if !ok {
				continue
			}
			su, ok := fa.X.Type().Underlying().(*types.Pointer).Elem().Underlying().(*types.Struct)
			if !ok {
				continue
			}
			k := lockKey{rootValue(fa.X), su.Field(fa.Field).Name()}
			switch calleeFullName(f) {
			case "(*sync.Mutex).Lock", "(*sync.RWMutex).Lock":
				cur[k] = "W"
			case "(*sync.RWMutex).RLock":
				cur[k] = "R"
			case "(*sync.Mutex).Unlock", "(*sync.RWMutex).Unlock", "(*sync.RWMutex).RUnlock":
				delete(cur, k)
			}
		}
		for _, s := range b.Succs {
			if !visited[s] {
				in[s] = clone(cur)
				visited[s] = true
				work = append(work, s)
				continue
			}
			// intersect
			changed := false
			for k, v := range in[s] {
				if cv, ok := cur[k]; !ok || cv != v {
					if ok && (cv == "W" || v == "W") && cv != v {
						in[s][k] = "R"
						changed = true
						continue
					}
					delete(in[s], k)
					changed = true
				}
			}
			if changed {
				work = append(work, s)
			}
		}
	}
	return out
}

// rootValue strips loads of write-once local cells so that "st" read back from
// its capture cell is recognised as the same object.
func rootValue(v ssa.Value) ssa.Value {
	for {
		switch x := v.(type) {
		case *ssa.UnOp:
			if x.Op == token.MUL {
				if a, ok := x.X.(*ssa.Alloc); ok && cellWriteOnce(a) {
					// find the single stored value
					for _, r := range *a.Referrers() {
						if s, ok := r.(*ssa.Store); ok && s.Addr == a {
							v = s.Val
							goto next
						}
					}
				}
				if fv, ok := x.X.(*ssa.FreeVar); ok {
					return fv
				}
			}
			return v
		case *ssa.ChangeType:
			v = x.X
		default:
			return v
		}
	next:
	}
}

func isFreshObj(v ssa.Value) bool {
	switch x := rootValue(v).(type) {
	case *ssa.Alloc:
		return true
	case *ssa.Call:
		_ = x
		return false
	}
	return false
}

func disciplinePass(prog *Program, cs *Contracts, prop string) []*FuncResult {
	if prop != "C15" {
		return nil
	}
	props := []string{"C15"}
	fr := &FuncResult{Name: "pass:discipline"}
	// 1. every field of every struct type declared in the package is classified
	scope := prog.Pkg.Types.Scope()
	for _, name := range scope.Names() {
		tn, ok := scope.Lookup(name).(*types.TypeName)
		if !ok {
			continue
		}
		su, ok := tn.Type().Underlying().(*types.Struct)
		if !ok {
			continue
		}
		tc := cs.Types[name]
		if tc == nil {
			// "type A B": same struct as B, accessed through conversions to *B
			shared := false
			for _, other := range scope.Names() {
				if other != name && cs.Types[other] != nil {
					if otn, ok := scope.Lookup(other).(*types.TypeName); ok && types.Identical(otn.Type().Underlying(), su) {
						shared = true
					}
				}
			}
			if shared {
				continue
			}
		}
		for i := 0; i < su.NumFields(); i++ {
			f := su.Field(i)
			classified := tc != nil
			if classified {
				_, classified = tc.Fields[f.Name()]
			}
			if !classified && isSyncType(f.Type()) {
				classified = true // sync primitives are monitor-internal by type
			}
			if !classified && su.NumFields() > 0 && (strings.HasPrefix(name, "threadSafe") || name == "multiChannel" || name == "tunnelOptFunc" ||
				name == "tunnelOpts" || name == "pendingChannel" || name == "tunnelServiceHandler" || name == "reverseChannelEntry" ||
				name == "TunnelServiceHandlerOptions" || strings.HasSuffix(name, "ContextKey") || name == "tunnelChannelCallOption") {
				// value-like / set-once types: handled by the rule below (written only while fresh)
				classified = true
			}
			passInst(fr, prog, name, "discipline", "classified/"+f.Name(), props, "field "+name+"."+f.Name()+" has a declared concurrency discipline", classified, f.Pos())
		}
	}
	// 2. every access respects the discipline
	for _, n := range prog.SortedFuncNames() {
		fn := prog.Funcs[n]
		entry := map[lockKey]string{}
		if fc := cs.Funcs[n]; fc != nil {
			for _, c := range fc.Requires {
				if call, ok := c.Expr.(*ECall); ok && (call.F == "held" || call.F == "heldR") && len(call.Args) == 1 {
					if sel, ok := call.Args[0].(*ESel); ok {
						if id, ok := sel.X.(*EIdent); ok {
							for _, p := range fn.Params {
								if p.Name() == id.Name {
									m := "W"
									if call.F == "heldR" {
										m = "R"
									}
									entry[lockKey{p, sel.F}] = m
									parentHoldsOnEntry[n+"/"+sel.F] = true
								}
							}
						}
					}
				}
			}
		}
		// closures run with the locks their parent holds at the point of a synchronous call; we only
		// credit deferred/inline closures of the same function (conservative: none)
		locks := mustLocks(fn, entry)
		idx := map[string]int{}
		for _, b := range fn.Blocks {
			if fn.Recover != nil && b == fn.Recover {
				continue
			}
			for _, in := range b.Instrs {
				var fa *ssa.FieldAddr
				write := false
				switch x := in.(type) {
				case *ssa.Store:
					if a, ok := x.Addr.(*ssa.FieldAddr); ok {
						fa, write = a, true
					}
				case *ssa.UnOp:
					if x.Op == token.MUL {
						if a, ok := x.X.(*ssa.FieldAddr); ok {
							fa = a
						}
					}
				}
				if fa == nil {
					continue
				}
				pt, ok := fa.X.Type().Underlying().(*types.Pointer)
				if !ok {
					continue
				}
				nt, ok := pt.Elem().(*types.Named)
				if !ok || nt.Obj().Pkg() == nil || nt.Obj().Pkg().Path() != pkgPath {
					continue
				}
				su := nt.Underlying().(*types.Struct)
				owner := nt.Obj().Name()
				fname := su.Field(fa.Field).Name()
				tc := cs.Types[owner]
				if tc == nil {
					continue
				}
				d, ok := tc.Fields[fname]
				if !ok {
					continue
				}
				key := fmt.Sprintf("%s.%s", owner, fname)
				idx[key]++
				anchor := fmt.Sprintf("%s/%s#%d", map[bool]string{true: "write", false: "read"}[write], key, idx[key])
				fresh := isFreshObj(fa.X)
				switch d.Class {
				case "immutable":
					if write {
						passInst(fr, prog, n, "discipline", anchor, props, "immutable field "+key+" is written only while its object is fresh (not yet shared)", fresh, in.Pos())
					}
				case "guarded_by":
					if fresh {
						continue
					}
					if !write && strings.Contains(d.Arg, "readers ") {
						// reads in the named accessor functions are justified by an observed publication
						// signal instead of the lock; their contracts assert that observation at every return
						exempt := false
						for _, rn := range strings.Split(strings.SplitN(d.Arg, "readers ", 2)[1], ",") {
							if strings.HasSuffix(n, "."+strings.TrimSpace(strings.Fields(rn + " ")[0])) {
								exempt = true
							}
						}
						if exempt {
							_, under := cs.Funcs[n]
							passInst(fr, prog, n, "discipline", anchor, props, "lock-free reader of "+key+" is under contract (its contract asserts the observed publication signal)", under, in.Pos())
							continue
						}
					}
					held := locks[in]
					root := rootValue(fa.X)
					okLock := false
					for _, g := range strings.FieldsFunc(d.Arg, func(r rune) bool { return r == '&' || r == '|' || r == ' ' || r == ',' }) {
						if m, has := held[lockKey{root, g}]; has && (!write || m == "W") {
							okLock = true
						}
					}
					// closures created inside a critical section of the parent and run synchronously (defer/inline)
					if !okLock && fn.Parent() != nil && closureRunsUnderParentLock(fn, owner, d.Arg, write) {
						okLock = true
					}
					what := "read"
					if write {
						what = "written"
					}
					passInst(fr, prog, n, "discipline", anchor, props, "guarded field "+key+" is "+what+" only with "+firstField(d.Arg)+" held on the same object", okLock, in.Pos())
				case "published_by":
					// written only by the publisher before the publishing close; read only after observing it
					pub := firstField(d.Arg)
					if write {
						okw := strings.HasSuffix(n, ".recvLoop") || fresh
						passInst(fr, prog, n, "discipline", anchor, props, "field "+key+" (published by closing "+pub+") is written only by its publisher", okw, in.Pos())
					} else if !strings.HasSuffix(n, ".recvLoop") && !fresh {
						// the observation itself is a semantic obligation generated by the symbolic
						// executor (discipline/observed/...); here: the reading function is under contract
						_, under := cs.Funcs[n]
						passInst(fr, prog, n, "discipline", anchor, props, "function reading "+key+" (published by "+pub+") is under contract, so the observation obligation is generated", under, in.Pos())
					}
				}
			}
		}
	}
	// 3. atomics are touched only through their methods (address never stored or loaded directly)
	for _, n := range prog.SortedFuncNames() {
		fn := prog.Funcs[n]
		k := 0
		for _, b := range fn.Blocks {
			for _, in := range b.Instrs {
				fa, ok := in.(*ssa.FieldAddr)
				if !ok {
					continue
				}
				su, ok := fa.X.Type().Underlying().(*types.Pointer).Elem().Underlying().(*types.Struct)
				if !ok {
					continue
				}
				ft := su.Field(fa.Field).Type()
				if !strings.HasPrefix(namedKey(ft), "atomic.") {
					continue
				}
				okUse := true
				for _, r := range *fa.Referrers() {
					switch x := r.(type) {
					case *ssa.Call:
						if x.Call.IsInvoke() || len(x.Call.Args) == 0 || x.Call.Args[0] != ssa.Value(fa) {
							okUse = false
						}
					case *ssa.MakeClosure, *ssa.DebugRef:
					default:
						okUse = false
					}
				}
				k++
				passInst(fr, prog, n, "discipline", fmt.Sprintf("atomic/%s#%d", su.Field(fa.Field).Name(), k), props, "atomic field "+su.Field(fa.Field).Name()+" is used only as the receiver of sync/atomic methods", okUse, fa.Pos())
			}
		}
	}
	return []*FuncResult{fr}
}

func isSyncType(t types.Type) bool {
	n := namedKey(t)
	return strings.HasPrefix(n, "sync.") || strings.HasPrefix(n, "atomic.")
}

// closureRunsUnderParentLock: a deferred or immediately-invoked closure whose
// parent holds the guard at every point where it runs is not modelled; we accept
// only closures passed to sync.Once.Do that lock the guard themselves (none
// needed today) and report everything else.
func closureRunsUnderParentLock(fn *ssa.Function, owner, guard string, write bool) bool {
	// a closure that its parent only defers runs before the parent returns; if the
	// parent holds the guard on entry (requires held) and never releases it, the
	// closure runs under it
	p := fn.Parent()
	if p == nil {
		return false
	}
	onlyDeferred := false
	for _, b := range p.Blocks {
		for _, in := range b.Instrs {
			if d, ok := in.(*ssa.Defer); ok {
				if mc, ok := d.Call.Value.(*ssa.MakeClosure); ok && mc.Fn == ssa.Value(fn) {
					onlyDeferred = true
				}
			}
		}
	}
	if !onlyDeferred {
		return false
	}
	return parentHoldsOnEntry[FuncName(p)+"/"+firstField(guard)]
}

// filled from 'requires held(x.mu)' clauses by disciplinePass
var parentHoldsOnEntry = map[string]bool{}

// observesBefore: some receive on field pub of the same object dominates the instruction.
func observesBefore(fn *ssa.Function, at ssa.Instruction, pub string) bool {
	for _, b := range fn.Blocks {
		for _, in := range b.Instrs {
			var ch ssa.Value
			switch x := in.(type) {
			case *ssa.UnOp:
				if x.Op == token.ARROW {
					ch = x.X
				}
			}
			if ch == nil {
				continue
			}
			if u, ok := ch.(*ssa.UnOp); ok {
				if fa, ok := u.X.(*ssa.FieldAddr); ok {
					su := fa.X.Type().Underlying().(*types.Pointer).Elem().Underlying().(*types.Struct)
					if su.Field(fa.Field).Name() == pub && in.Block().Dominates(at.Block()) {
						return true
					}
				}
			}
		}
	}
	return false
}

// ---------------------------------------------------------------------------
// interface refinement: every implementation carries the interface's clauses
// ---------------------------------------------------------------------------

func normClause(s string) string { return strings.Join(strings.Fields(s), " ") }

func refinementPass(prog *Program, cs *Contracts, prop string) []*FuncResult {
	if prop != "C01" && prop != "C06" && prop != "C07" {
		return nil
	}
	fr := &FuncResult{Name: "pass:refinement"}
	props := []string{"C01", "C06", "C07"}
	// abstraction of the interface-level ghost state per implementation
	abstraction := map[string]map[string]string{
		"defaultReceiver":       {"rclosed(recv)": "r.closed", "rcancelled(recv)": "r.cancelled"},
		"noFlowControlReceiver": {"rclosed(recv)": "isClosed(r.closed)", "rcancelled(recv)": "isClosed(r.closed)"},
	}
	for key, ic := range cs.Funcs {
		if !strings.HasPrefix(key, "if:receiver.") {
			continue
		}
		m := strings.TrimPrefix(key, "if:receiver.")
		for _, impl := range []string{"defaultReceiver", "noFlowControlReceiver"} {
			fname := "(*" + impl + ")." + m
			fn := prog.Funcs[fname]
			passInst(fr, prog, fname, "refines", "exists", props, "implementation of receiver."+m+" exists", fn != nil, token.NoPos)
			if fn == nil {
				continue
			}
			implFC := cs.Funcs[fname]
			// requires of the implementation must not exceed the interface's
			ok := implFC != nil
			if implFC != nil {
				for _, r := range implFC.Requires {
					found := false
					for _, ir := range ic.Requires {
						found = found || normClause(ir.Text) == normClause(r.Text)
					}
					ok = ok && found
				}
			}
			if impl == "noFlowControlReceiver" && implFC == nil {
				ok = true // thin wrappers (cancel = close) are inlined
			}
			passInst(fr, prog, fname, "refines", "requires", props, "implementation demands no more than the interface contract of receiver."+m, ok, fn.Pos())
			_ = abstraction
		}
	}
	return []*FuncResult{fr}
}

// lemmaPass discharges the contract file's closed lemmas (kind "lemma") for
// the property: formulas over mathematical integers that carry a property
// from the one-step postcondition a function proves to the many-step
// statement the property makes. Induction itself is the usual schema: a lemma
// named X_base and one named X_step together stand for "for all k >= 0".
func lemmaPass(prog *Program, cs *Contracts, prop string) []*FuncResult {
	var todo []*Clause
	for _, l := range cs.Lemmas {
		if contains(l.Props, prop) {
			todo = append(todo, l)
		}
	}
	if len(todo) == 0 {
		return nil
	}
	var host *ssa.Function
	for _, n := range []string{"inSlice", "toProto", "fromProto"} {
		if f := prog.Funcs[n]; f != nil {
			host = f
			break
		}
	}
	if host == nil {
		for _, f := range prog.Funcs {
			host = f
			break
		}
	}
	e := newExec(prog, cs, host)
	e.fname = "lemma"
	e.fc = nil
	st := &State{cells: map[string]Val{}, snaps: map[string]map[string]string{}, heap: map[string]string{}, old: map[string]string{}, impure: map[string]bool{}, ghost: map[string]Val{},
		calls: map[string]callRecord{}, counts: map[string]int{}, front: map[string][2]string{}, everHeld: map[string]bool{}, casWon: map[string]bool{}}
	fr := &FuncResult{Name: "pass:lemma"}
	for i, l := range todo {
		name := l.Label
		if name == "" {
			name = fmt.Sprintf("lemma#%d", i+1)
		}
		g, err := e.evalBool(&evalCtx{st: st}, l.Expr)
		if err != nil {
			g = "false"
			contractErrors = append(contractErrors, fmt.Sprintf("contract error: lemma %s line %d: %v", name, l.Line, err))
		}
		fr.Insts = append(fr.Insts, &Instance{Name: "lemma/" + name, Kind: "lemma", Func: "pass:lemma", Props: l.Props, Clause: "lemma " + l.Text, Goal: g})
	}
	for _, n := range e.declOrder {
		fr.Decls = append(fr.Decls, fmt.Sprintf("(declare-fun %s () %s)", n, e.decls[n]))
	}
	for _, n := range e.funOrder {
		fr.Decls = append(fr.Decls, e.funs[n])
	}
	fr.Axioms = e.axioms
	return []*FuncResult{fr}
}
