package engine

import (
	"encoding/json"
	"fmt"
	"os"
	"os/exec"
	"path/filepath"
	"sort"
	"strings"
)

type corpusEntry struct {
	Name     string
	Patch    string
	Props    []string // properties it breaks (must-fail); empty for neutral patches
	MustFail bool
	// a documented miss: the change takes the code out of the contract's reach
	// (e.g. a new loop without invariant), the honest verdict is UNDECIDED
	ExpectUndecided bool
}

func loadCorpus() []corpusEntry {
	var out []corpusEntry
	seeds, _ := filepath.Glob(filepath.Join(verifDir, "seeded", "*", "patch.diff"))
	for _, p := range seeds {
		var meta struct {
			Property   string   `json:"property"`
			Also       []string `json:"also_breaks"`
			Superseded string   `json:"superseded"`
			Expect     string   `json:"expect"`
		}
		_ = loadJSON(filepath.Join(filepath.Dir(p), "meta.json"), &meta)
		if meta.Superseded != "" {
			continue
		}
		out = append(out, corpusEntry{Name: "seeded/" + filepath.Base(filepath.Dir(p)), Patch: p, Props: append([]string{meta.Property}, meta.Also...), MustFail: true, ExpectUndecided: meta.Expect == "undecided"})
	}
	var idx map[string][]string
	_ = loadJSON(filepath.Join(verifDir, "selftest", "mutants", "index.json"), &idx)
	muts, _ := filepath.Glob(filepath.Join(verifDir, "selftest", "mutants", "*.patch"))
	for _, p := range muts {
		n := strings.TrimSuffix(filepath.Base(p), ".patch")
		out = append(out, corpusEntry{Name: "mutants/" + n, Patch: p, Props: idx[n], MustFail: true})
	}
	neu, _ := filepath.Glob(filepath.Join(verifDir, "selftest", "neutral", "*.patch"))
	for _, p := range neu {
		out = append(out, corpusEntry{Name: "neutral/" + strings.TrimSuffix(filepath.Base(p), ".patch"), Patch: p})
	}
	sort.Slice(out, func(i, j int) bool { return out[i].Name < out[j].Name })
	return out
}

// scratchRepo copies /repo's working tree (without .git) and applies a patch.
func scratchRepo(patch string) (string, error) {
	dir, err := os.MkdirTemp("", "gtvselftest")
	if err != nil {
		return "", err
	}
	src := repoDir
	if b := os.Getenv("GTV_SELFTEST_BASE"); b != "" {
		// a frozen copy of the tree, so that a long corpus run is not
		// disturbed by edits made to /repo while it is running
		src = b
	}
	if out, err := exec.Command("cp", "-r", src+"/.", dir).CombinedOutput(); err != nil {
		os.RemoveAll(dir)
		return "", fmt.Errorf("copy: %v %s", err, out)
	}
	os.RemoveAll(filepath.Join(dir, ".git"))
	cmd := exec.Command("patch", "-p1", "-s", "-i", patch)
	cmd.Dir = dir
	if out, err := cmd.CombinedOutput(); err != nil {
		os.RemoveAll(dir)
		return "", fmt.Errorf("patch does not apply: %s", strings.TrimSpace(string(out)))
	}
	return dir, nil
}

type selfRow struct {
	Entry      string   `json:"entry"`
	Property   string   `json:"property"`
	Exit       int      `json:"exit"`
	Violations []string `json:"violations,omitempty"`
	Undecided  int      `json:"undecided"`
	// Replayed: VIOLATION lines whose counterexample failed on the real code (no no-failing-input-found suffix)
	Replayed   int      `json:"replayed,omitempty"`
	OK         bool     `json:"ok"`
	Note       string   `json:"note,omitempty"`
}

// RunSelftest applies every corpus patch that concerns prop ("" = all) to a
// scratch copy and runs the property's check there. A must-fail patch has to
// produce a VIOLATION for (one of) its properties; a neutral patch must not
// produce one for any property it is run against.
func RunSelftest(prop string, neutralProps []string) ([]selfRow, bool) {
	return runSelftest(prop, neutralProps, 0)
}

// propsForFiles: the properties whose anchors (properties.jsonl) name one of the files.
func propsForFiles(files []string) []string {
	b, err := os.ReadFile(filepath.Join(verifDir, "properties.jsonl"))
	if err != nil {
		return nil
	}
	var out []string
	for _, l := range strings.Split(string(b), "\n") {
		var p struct {
			ID      string `json:"id"`
			Anchors struct {
				Files []string `json:"files"`
			} `json:"anchors"`
		}
		if json.Unmarshal([]byte(l), &p) != nil || p.ID == "" {
			continue
		}
		for _, f := range files {
			if contains(p.Anchors.Files, f) {
				out = append(out, p.ID)
				break
			}
		}
	}
	return out
}

func patchFiles(patch string) []string {
	b, _ := os.ReadFile(patch)
	var out []string
	for _, l := range strings.Split(string(b), "\n") {
		if strings.HasPrefix(l, "+++ ") {
			f := strings.TrimSpace(strings.TrimPrefix(l, "+++ "))
			f = strings.TrimPrefix(strings.TrimPrefix(f, "b/"), "a/")
			out = append(out, f)
		}
	}
	return out
}

// runSelftest: maxNeutral > 0 limits the neutral patches (chosen deterministically per property).
// In a full run (prop == "") a neutral patch is checked against four of the
// properties anchored in the files it touches (all of them with
// GTV_SELFTEST_ALLPROPS=1); corpus entries run three at a time.
func runSelftest(prop string, neutralProps []string, maxNeutral int) ([]selfRow, bool) {
	type job struct {
		ce    corpusEntry
		props []string
	}
	var jobs []job
	neutralSeen := 0
	for ci, ce := range loadCorpus() {
		if !ce.MustFail && maxNeutral > 0 {
			h := 0
			for _, c := range prop {
				h = h*31 + int(c)
			}
			if (ci+h)%3 != 0 || neutralSeen >= maxNeutral {
				continue
			}
			neutralSeen++
		}
		var props []string
		if ce.MustFail {
			for _, p := range ce.Props {
				if prop == "" || p == prop {
					props = append(props, p)
				}
			}
		} else if prop != "" {
			props = []string{prop}
		} else {
			rel := propsForFiles(patchFiles(ce.Patch))
			if len(rel) == 0 {
				rel = neutralProps
			}
			if os.Getenv("GTV_SELFTEST_ALLPROPS") == "" && len(rel) > 4 {
				h := 0
				for _, c := range ce.Name {
					h = (h*31 + int(c)) % 1000003
				}
				var pick []string
				for k := 0; k < 4; k++ {
					pick = append(pick, rel[(h+k*(len(rel)/4))%len(rel)])
				}
				rel = pick
			}
			props = rel
		}
		if len(props) == 0 {
			continue
		}
		jobs = append(jobs, job{ce, props})
	}
	results := make([][]selfRow, len(jobs))
	oks := make([]bool, len(jobs))
	sem := make(chan struct{}, 3)
	done := make(chan int, len(jobs))
	for ji, j := range jobs {
		sem <- struct{}{}
		go func(ji int, j job) {
			defer func() { <-sem; done <- ji }()
			ce := j.ce
			oks[ji] = true
			dir, err := scratchRepo(ce.Patch)
			if err != nil {
				results[ji] = append(results[ji], selfRow{Entry: ce.Name, Note: err.Error(), OK: !ce.MustFail})
				oks[ji] = !ce.MustFail
				return
			}
			defer os.RemoveAll(dir)
			caught := false
			for _, p := range j.props {
				out, code := captureCheck(CheckOpts{Property: p, Tier: "quick", Repo: dir, NoEvidence: true})
				row := selfRow{Entry: ce.Name, Property: p, Exit: code}
				for _, l := range strings.Split(out, "\n") {
					if strings.HasPrefix(l, "VIOLATION ") {
						if i := strings.Index(l, "obligation="); i >= 0 {
							row.Violations = append(row.Violations, strings.Fields(l[i+len("obligation="):])[0])
						}
						if !strings.HasSuffix(strings.TrimSpace(l), "no-failing-input-found") {
							row.Replayed++
						}
					}
					if strings.HasPrefix(l, "UNDECIDED ") {
						row.Undecided++
					}
				}
				if ce.MustFail {
					row.OK = code == 1 && len(row.Violations) > 0
					if !row.OK && ce.ExpectUndecided && code == 0 && row.Undecided > 0 {
						row.OK = true
						row.Note = "documented miss: UNDECIDED, as recorded in meta.json"
					}
					caught = caught || row.OK
				} else {
					row.OK = len(row.Violations) == 0 && code != 1
					if !row.OK {
						oks[ji] = false
					}
				}
				results[ji] = append(results[ji], row)
			}
			if ce.MustFail && !caught {
				oks[ji] = false
			}
		}(ji, j)
	}
	for range jobs {
		<-done
	}
	var rows []selfRow
	allOK := true
	for ji := range jobs {
		rows = append(rows, results[ji]...)
		allOK = allOK && oks[ji]
	}
	return rows, allOK
}

// captureCheck runs RunCheck in a child process so that its output can be captured and its
// caches do not leak between trees.
func captureCheck(o CheckOpts) (string, int) {
	self, _ := os.Executable()
	args := []string{"check", "--property", o.Property, "--tier", o.Tier, "--repo", o.Repo, "--no-evidence"}
	cmd := exec.Command(self, args...)
	cmd.Dir = verifDir
	out, err := cmd.CombinedOutput()
	code := 0
	if ee, ok := err.(*exec.ExitError); ok {
		code = ee.ExitCode()
	}
	return string(out), code
}

func selftestMain(args []string) int {
	prop := ""
	if len(args) > 0 {
		prop = args[0]
	}
	rows, ok := RunSelftest(prop, []string{"C01", "C04", "C06", "C08", "C10", "C12", "C18"})
	for _, r := range rows {
		tag := "ok  "
		if !r.OK {
			tag = "FAIL"
		}
		fmt.Printf("%s %-60s %-4s exit=%d undecided=%d %s %s\n", tag, r.Entry, r.Property, r.Exit, r.Undecided, strings.Join(r.Violations, ","), r.Note)
	}
	b, _ := json.MarshalIndent(rows, "", " ")
	os.WriteFile(filepath.Join(verifDir, "selftest", "last_result.json"), b, 0o644)
	if !ok {
		fmt.Println("SELFTEST-FAIL")
		return 2
	}
	return 0
}
