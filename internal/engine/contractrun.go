package engine

import (
	"go/token"
	"fmt"
	"go/types"
	"sort"
	"strings"

	"golang.org/x/tools/go/ssa"
)

// initContractState: ghost locals, requires assumed, receiver invariants for held locks.
func (e *Exec) initContractState(st *State) {
	if e.fc == nil {
		return
	}
	fr := st.top()
	e.nopanicProps = e.fc.NoPanicProps
	// requires: held(x) seeds the lockset (with the monitor invariant assumed)
	for _, c := range e.fc.Requires {
		if call, ok := c.Expr.(*ECall); ok && (call.F == "held" || call.F == "heldR") && len(call.Args) == 1 {
			ctx := &evalCtx{st: st, fr: fr, scope: map[string]Val{}}
			lv, err := e.evalTop(ctx, call.Args[0], nil)
			if err != nil {
				e.contractError(e.fc, c, err)
				continue
			}
			if lv.Sub != nil {
				ov, t := e.objVal(lv.Sub.Owner, lv.Sub.Obj)
				if t != nil {
					e.assumeInvariants(st, lv.Sub.Owner, lv.Sub.Path, ov, t)
				}
				st.held = append(st.held, HeldLock{Term: lv.T[0], Owner: lv.Sub.Owner, Field: lv.Sub.Path, Obj: lv.Sub.Obj, Read: call.F == "heldR"})
				st.everHeld[lv.T[0]] = true
			}
			continue
		}
		ctx := &evalCtx{st: st, fr: fr, scope: map[string]Val{}}
		g, err := e.evalBool(ctx, c.Expr)
		if err != nil {
			e.contractError(e.fc, c, err)
			continue
		}
		st.assume(g)
	}
	for _, g := range e.fc.Ghosts {
		t := e.lookupType(g.Type)
		if g.Type == "ghostint" {
			t = ghostIntT
		}
		ctx := &evalCtx{st: st, fr: fr, scope: map[string]Val{}}
		v, err := e.evalTop(ctx, g.Init, t)
		if err != nil {
			e.contractError(e.fc, &Clause{Text: "ghost " + g.Name, Line: g.Line}, err)
			continue
		}
		if t != nil {
			v.Typ = t
		}
		st.ghost[g.Name] = v
	}
	e.stableInvs(st, false, nil, "")
	// vacuity probe: requires must be satisfiable
	if len(e.fc.Requires) > 0 {
		e.insts = append(e.insts, &Instance{Name: e.fname + "/cover/requires", Kind: "cover", Func: e.fname,
			Clause: "requires are satisfiable", Assumes: append([]string(nil), st.assumes...), Goal: "true", Cover: true})
	}
}

// runDefers executes the frame's deferred calls in LIFO order, then continues.
func (e *Exec) runDefers(st *State, b *ssa.BasicBlock, idx int) bool {
	fr := st.top()
	if len(fr.defers) == 0 {
		return false
	}
	d := fr.defers[len(fr.defers)-1]
	fr.defers = fr.defers[:len(fr.defers)-1]
	e.atAnchor(st, d.instr, d.args, &d.fn)
	e.dispatch(st, d.instr, d.call, d.fn, d.args, func(s2 *State, _ Val) {
		// continue with the remaining defers of the same frame
		if !e.runDefers(s2, b, idx) {
			e.continueAfter(s2, b, idx)
		}
	}, fr)
	return true
}

// enterLoop handles arrival at a loop header. Returns false if the path ends here.
func (e *Exec) enterLoop(st *State, h *ssa.BasicBlock, prev *ssa.BasicBlock, li *loopInfo) bool {
	fr := st.top()
	fc := e.cs.Funcs[FuncName(fr.fn)]
	if fr.fn == e.fn {
		fc = e.fc
	}
	var invs []*Clause
	if fc != nil {
		invs = fc.LoopInv[li.ord]
	}
	back := prev != nil && li.blocks[prev]
	// bind phis for this edge first so invariants see the incoming values
	bindPhis := func(s *State) {
		f := s.top()
		for _, in := range h.Instrs {
			phi, ok := in.(*ssa.Phi)
			if !ok {
				break
			}
			for j, p := range h.Preds {
				if p == prev {
					f.env[phi] = e.val(s, phi.Edges[j])
					if phi.Comment != "" {
						f.vars[phi.Comment] = f.env[phi]
						delete(f.varAddr, phi.Comment)
					}
				}
			}
		}
	}
	evalInvs := func(s *State, kind string) {
		f := s.top()
		for i, c := range invs {
			ctx := &evalCtx{st: s, fr: f, scope: map[string]Val{}, entryScope: e.entryParams()}
			g, err := e.evalBool(ctx, c.Expr)
			if err != nil {
				e.contractError(fc, c, err)
				continue
			}
			pre := ""
			if f.fn != e.fn {
				pre = FuncName(f.fn) + ":"
			}
			e.oblige(s, kind, fmt.Sprintf("%sloop%d/%s", pre, li.ord, clauseID(c, i)), c.Props, "loop invariant: "+c.Text, g, h.Instrs[0].Pos())
		}
	}
	monitorInvs := func(s *State, kind string) {
		for _, h := range s.held {
			if h.Read {
				continue
			}
			ov, t := e.objVal(h.Owner, h.Obj)
			if t != nil {
				e.assertInvariants(s, h.Owner, h.Field, ov, t, h2instr(h0(li)), fmt.Sprintf("%s/loop%d", kind, li.ord))
			}
		}
	}
	// inferred invariants of counting loops: i := c; ...; i += k (k > 0)  gives  i >= c
	counters := counterPhis(h, li)
	autoInv := func(s *State, kind string, assume bool) {
		f := s.top()
		for _, cp := range counters {
			v, ok := f.env[cp.phi]
			if !ok || len(v.T) != 1 {
				continue
			}
			w := bvWidth(shape(cp.phi.Type())[0].Sort)
			g := app("bvsge", v.T[0], bvLitI(cp.lo, w))
			if assume {
				s.assume(g)
				continue
			}
			pre := ""
			if f.fn != e.fn {
				pre = FuncName(f.fn) + ":"
			}
			e.oblige(s, kind, fmt.Sprintf("%sloop%d/auto:%s>=%d", pre, li.ord, cp.phi.Comment, cp.lo), nil, fmt.Sprintf("inferred loop invariant: %s >= %d", cp.phi.Comment, cp.lo), g, h.Instrs[0].Pos())
		}
	}
	if back {
		bindPhis(st)
		autoInv(st, "inv-preserved", false)
		evalInvs(st, "inv-preserved")
		// lockset must be unchanged around the loop
		return false
	}
	if len(invs) == 0 && fc != nil && (len(fc.Ensures) > 0 || len(fc.At) > 0) {
		// a loop without invariant in a function with functional clauses: out of reach
		if !hasTrivialLoop(li) {
			st.note("loop %d of %s has no invariant: loop-modified state havoc'd with no facts", li.ord, FuncName(fr.fn))
		}
	}
	bindPhis(st)
	evalInvs(st, "inv-entry")
	_ = monitorInvs
	// havoc everything the loop may modify
	e.havocLoop(st, h, li)
	for _, hl := range st.held {
		// wake-up obligations are checked per loop-free segment
		e.snapshot(st, hl.Term)
	}
	f := st.top()
	autoInv(st, "", true)
	for _, c := range invs {
		ctx := &evalCtx{st: st, fr: f, scope: map[string]Val{}, entryScope: e.entryParams()}
		g, err := e.evalBool(ctx, c.Expr)
		if err != nil {
			continue
		}
		st.assume(g)
	}
	return true
}

type counterPhi struct {
	phi *ssa.Phi
	lo  int64
}

// counterPhis finds header phis of signed integer type that start at a
// constant and are only ever increased by a positive constant in the loop.
func counterPhis(h *ssa.BasicBlock, li *loopInfo) []counterPhi {
	var out []counterPhi
	for _, in := range h.Instrs {
		phi, ok := in.(*ssa.Phi)
		if !ok {
			break
		}
		if !isIntType(phi.Type()) || isUnsigned(phi.Type()) || phi.Comment == "" {
			continue
		}
		okAll, haveInit := true, false
		var lo int64
		for j, p := range h.Preds {
			ev := phi.Edges[j]
			if li.blocks[p] {
				bo, ok := ev.(*ssa.BinOp)
				if !ok || bo.Op != token.ADD {
					okAll = false
					break
				}
				var other ssa.Value
				if bo.X == ssa.Value(phi) {
					other = bo.Y
				} else if bo.Y == ssa.Value(phi) {
					other = bo.X
				} else {
					okAll = false
					break
				}
				c, ok := other.(*ssa.Const)
				if !ok || c.Value == nil || c.Int64() <= 0 {
					okAll = false
					break
				}
			} else {
				c, ok := ev.(*ssa.Const)
				if !ok || c.Value == nil || haveInit && c.Int64() != lo {
					okAll = false
					break
				}
				lo, haveInit = c.Int64(), true
			}
		}
		if okAll && haveInit {
			out = append(out, counterPhi{phi, lo})
		}
	}
	return out
}

func hasTrivialLoop(li *loopInfo) bool { return false }

func isCancelFunc(t types.Type) bool {
	nt, ok := t.(*types.Named)
	return ok && nt.Obj().Name() == "CancelFunc" && nt.Obj().Pkg() != nil && nt.Obj().Pkg().Path() == "context"
}

func h0(li *loopInfo) *ssa.BasicBlock { return li.header }

// h2instr: an instruction to attach positions to (first instruction of the header).
func h2instr(b *ssa.BasicBlock) ssa.Instruction { return b.Instrs[0] }

// havocLoop gives fresh values to phis of the header and to every heap
// location / ghost variable the loop body may write.
func (e *Exec) havocLoop(st *State, h *ssa.BasicBlock, li *loopInfo) {
	fr := st.top()
	st.quiet++
	defer func() { st.quiet-- }()
	for _, in := range h.Instrs {
		phi, ok := in.(*ssa.Phi)
		if !ok {
			break
		}
		v := e.freshVal("loop:"+phi.Comment, phi.Type())
		e.assumeWellFormedLoopVar(st, v, phi.Type())
		if phi.Comment == "rangeindex" && isIntType(phi.Type()) {
			// range loops start at -1 and step by one while below a length
			st.assume(app("bvsge", v.T[0], bvLitI(-1, 64)))
			st.assume(app("bvslt", v.T[0], bvLitI(1<<62, 64)))
		}
		fr.env[phi] = v
		if phi.Comment != "" {
			fr.vars[phi.Comment] = v
		}
	}
	fc := e.cs.Funcs[FuncName(fr.fn)]
	if fr.fn == e.fn {
		fc = e.fc
	}
	wholeHeap := false
	var stores []*ssa.Store
	for _, b := range fr.fn.Blocks {
		if !li.blocks[b] {
			continue
		}
		for _, in := range b.Instrs {
			switch x := in.(type) {
			case *ssa.Store:
				stores = append(stores, x)
			case *ssa.MapUpdate:
				mt := x.Map.Type().Underlying().(*types.Map)
				if definedOutside(x.Map, li) {
					mv := e.val(st, x.Map)
					mv.Typ = x.Map.Type()
					e.havocAbstract(st, "map", mv)
				} else {
					e.havocMapType(st, mt)
				}
			case *ssa.Call:
				if isCancelFunc(x.Call.Value.Type()) {
					e.havocKey(st, "ctx#cancelled", arr(SInt, SBool))
					continue
				}
				if bi, ok := x.Call.Value.(*ssa.Builtin); ok && bi.Name() == "append" {
					if slt, ok := under(x.Type()).(*types.Slice); ok {
						for _, l := range shape(slt.Elem()) {
							e.havocKey(st, leafKey(elemKey(slt.Elem()), l), arr(SInt, arr(SBV(64), l.Sort)))
						}
					}
					continue
				}
				if bi, ok := x.Call.Value.(*ssa.Builtin); ok && bi.Name() == "delete" && len(x.Call.Args) == 2 {
					// delete(m, k) writes the map only
					if mt, ok := x.Call.Args[0].Type().Underlying().(*types.Map); ok {
						if definedOutside(x.Call.Args[0], li) {
							mv := e.val(st, x.Call.Args[0])
							mv.Typ = x.Call.Args[0].Type()
							e.havocAbstract(st, "map", mv)
						} else {
							e.havocMapType(st, mt)
						}
						continue
					}
				}
				if e.callMayWriteHeap(&x.Call) {
					wholeHeap = true
				}
			case *ssa.Defer:
				if e.callMayWriteHeap(&x.Call) {
					wholeHeap = true
				}
			case *ssa.Next:
				if vis, ok := st.ghost["$visited"]; ok {
					mt := vis.Typ.Underlying().(*types.Map)
					st.ghost["$visited"] = Val{T: []string{e.fresh("visited", arr(e.mapKeySort(mt), SBool))}, Typ: vis.Typ}
				}
			case *ssa.Go, *ssa.Send:
			}
		}
	}
	if wholeHeap {
		e.havocAllKeepLocals(st, "loop body calls a function that may write the heap")
	}
	for _, s := range stores {
		addr := s.Addr
		pt := addr.Type().Underlying().(*types.Pointer).Elem()
		if definedOutside(addr, li) {
			av := e.val(st, addr)
			e.havocLoc(st, e.derefLoc(st, av, pt), false)
			continue
		}
		switch a := addr.(type) {
		case *ssa.FieldAddr:
			owner := namedKey(a.X.Type().Underlying().(*types.Pointer).Elem())
			su := a.X.Type().Underlying().(*types.Pointer).Elem().Underlying().(*types.Struct)
			f := su.Field(a.Field)
			if definedOutside(a.X, li) {
				bv := e.val(st, a.X)
				pv, _ := e.fieldLoc(st, bv, a.X.Type().Underlying().(*types.Pointer).Elem(), a.Field)
				if pv.Loc != nil {
					e.havocLoc(st, pv.Loc, false)
					continue
				}
			}
			for _, l := range shape(f.Type()) {
				e.havocKey(st, leafKey(fieldKey(owner, f.Name()), l), arr(SInt, l.Sort))
			}
		case *ssa.IndexAddr:
			var et types.Type
			switch t := under(a.X.Type()).(type) {
			case *types.Slice:
				et = t.Elem()
			case *types.Pointer:
				et = t.Elem().Underlying().(*types.Array).Elem()
			}
			if et != nil {
				for _, l := range shape(et) {
					e.havocKey(st, leafKey(elemKey(et), l), arr(SInt, arr(SBV(64), l.Sort)))
				}
			}
		default:
			for _, l := range shape(pt) {
				e.havocKey(st, leafKey(cellKey(pt), l), arr(SInt, l.Sort))
			}
		}
	}
	// ghost variables updated inside the loop
	if fc != nil {
		for _, c := range fc.At {
			if c.Kind != "ghost" {
				continue
			}
			for _, b := range fr.fn.Blocks {
				if !li.blocks[b] {
					continue
				}
				for _, in := range b.Instrs {
					if e.anchorMatches(fr, in, c.Anchor) {
						if cur, ok := st.ghost[c.Ghost]; ok {
							nv := Val{Typ: cur.Typ}
							for i := range cur.T {
								srt := SInt
								if cur.Typ != nil {
									srt = shape(cur.Typ)[i].Sort
								}
								nv.T = append(nv.T, e.fresh("ghost:"+c.Ghost, srt))
							}
							st.ghost[c.Ghost] = nv
						}
					}
				}
			}
		}
	}
}

func (e *Exec) assumeWellFormedLoopVar(st *State, v Val, t types.Type) {
	switch under(t).(type) {
	case *types.Slice:
		st.assume(app("bvule", v.T[2], v.T[3]))
		st.assume(app("bvule", v.T[3], bvLitI(1<<41, 64)))
		st.assume(app("bvule", v.T[1], bvLitI(1<<41, 64)))
	}
}

func (e *Exec) havocMapType(st *State, mt *types.Map) {
	e.havocKey(st, mapKeyName(mt)+"#present", arr(SInt, arr(e.mapKeySort(mt), SBool)))
	for _, l := range shape(mt.Elem()) {
		e.havocKey(st, leafKey(mapKeyName(mt)+"#val", l), arr(SInt, arr(e.mapKeySort(mt), l.Sort)))
	}
}

func (e *Exec) havocAllKeepLocals(st *State, why string) {
	e.havocAll(st, why)
}

func definedOutside(v ssa.Value, li *loopInfo) bool {
	switch x := v.(type) {
	case *ssa.Parameter, *ssa.FreeVar, *ssa.Global, *ssa.Const:
		return true
	case ssa.Instruction:
		return !li.blocks[x.Block()]
	}
	return false
}

// callMayWriteHeap: conservative test used for loop havoc.
func (e *Exec) callMayWriteHeap(cc *ssa.CallCommon) bool {
	if cc.IsInvoke() {
		in := ifaceName(cc.Value.Type())
		if i := strings.Index(in, "["); i >= 0 {
			in = in[:i]
		}
		if fc := e.cs.Funcs["if:"+in+"."+cc.Method.Name()]; fc != nil {
			return !fc.HasAssign || len(fc.Assigns) > 0 || len(fc.Locks) > 0
		}
		switch cc.Method.Name() {
		case "Done", "Err", "Value", "Error", "Context", "String", "Send", "Recv", "SendMsg", "CloseSend", "Header", "SendHeader",
			"RequireTransportSecurity", "GetRequestMetadata":
			return false
		}
		return true
	}
	if u, ok := cc.Value.(*ssa.UnOp); ok {
		if fa, ok := u.X.(*ssa.FieldAddr); ok {
			pt := fa.X.Type().Underlying().(*types.Pointer).Elem()
			su := pt.Underlying().(*types.Struct)
			if fc := e.cs.Funcs["ff:(*"+namedKey(pt)+")."+su.Field(fa.Field).Name()]; fc != nil {
				return !fc.HasAssign || len(fc.Assigns) > 0
			}
		}
	}
	switch v := cc.Value.(type) {
	case *ssa.Builtin:
		return v.Name() == "delete" || v.Name() == "close" || v.Name() == "copy"
	case *ssa.Function:
		name := calleeFullName(v)
		if isLocal(v) {
			if fc := e.cs.Funcs[name]; fc != nil && fc.HasAssign && len(fc.Assigns) == 0 && len(fc.Locks) == 0 && !fc.Inline {
				return false
			}
			return true
		}
		switch name {
		case "status.Errorf", "status.Error", "errors.New", "fmt.Errorf", "fmt.Sprintf", "status.FromError", "(*status.Status).Proto",
			"(metadata.MD).Get", "(metadata.MD).Append", "(metadata.MD).Set", "metadata.Join", "metadata.Pairs", "(metadata.MD).Copy", "strconv.ParseUint", "strconv.Atoi", "strings.SplitN", "errors.Is", "(*status.Status).Err", "status.FromProto":
			return false
		}
		if strings.Contains(name, "atomic.") || strings.Contains(name, "sync.") || strings.Contains(name, "list.") {
			return true
		}
		return true
	}
	return true
}

// atReturn evaluates postconditions of the function under verification.
func (e *Exec) atReturn(st *State, r *ssa.Return, res Val) {
	fr := st.top()
	e.retVal = &res
	e.atAnchor(st, r, nil, nil)
	e.retVal = nil
	if len(st.held) > 0 && e.fc != nil {
		// locks held at return must have been held on entry (requires held(..))
		for _, h := range st.held {
			entryHeld := false
			for _, c := range e.fc.Requires {
				if call, ok := c.Expr.(*ECall); ok && (call.F == "held" || call.F == "heldR") {
					entryHeld = true
				}
			}
			if !entryHeld {
				e.oblige(st, "lockorder", fmt.Sprintf("held-at-return/%s.%s", h.Owner, h.Field), []string{"C15"}, "function returns holding "+h.Owner+"."+h.Field, "false", r.Pos())
			}
		}
	}
	e.constructorInvariants(st, r)
	if e.fc == nil {
		return
	}
	scope := map[string]Val{}
	var resType types.Type = e.fn.Signature.Results()
	if e.fn.Signature.Results().Len() == 1 {
		resType = e.fn.Signature.Results().At(0).Type()
	}
	res.Typ = resType
	e.bindResults(scope, res, resType, e.fn)
	for _, l := range e.fc.Lets {
		ctx := &evalCtx{st: st, scope: scope, fr: fr, entryScope: e.entryParams(), paramsFirst: true}
		v, err := e.evalTop(ctx, l.E, nil)
		if err != nil {
			e.contractError(e.fc, &Clause{Text: "let " + l.Name, Line: e.fc.Line}, err)
			continue
		}
		scope[l.Name] = v
	}
	id := fr.ordinals[r]
	for i, c := range e.fc.Ensures {
		if freshTarget(c.Expr) != "" {
			rv, ok := scope[freshTarget(c.Expr)]
			if ok {
				g := "false"
				if e.isFresh(st, rv.T[len(rv.T)-1]) {
					g = "true"
				}
				e.oblige(st, "post", fmt.Sprintf("%s@return#%d", clauseID(c, i), id.ord), c.Props, "ensures "+c.Text, g, r.Pos())
				continue
			}
		}
		ctx := &evalCtx{st: st, scope: scope, fr: fr, entryScope: e.entryParams(), paramsFirst: true}
		g, err := e.evalBool(ctx, c.Expr)
		if err != nil {
			e.contractError(e.fc, c, err)
			continue
		}
		e.oblige(st, "post", clauseID(c, i), c.Props, "ensures "+c.Text, g, r.Pos())
	}
	if e.fc.HasAssign {
		e.checkFrame(st, r)
	}
}

// constructorInvariants: objects allocated by this function must satisfy the
// monitor invariants of their type when the function returns (they may escape).
func (e *Exec) constructorInvariants(st *State, r *ssa.Return) {
	if e.fc == nil || st.counts["heapgen"] > 0 {
		return // after an unbounded heap effect the check is done where the object is handed over (call-site asserts)
	}
	for _, b := range e.fn.Blocks {
		for _, in := range b.Instrs {
			al, ok := in.(*ssa.Alloc)
			if !ok {
				continue
			}
			pt := al.Type().(*types.Pointer).Elem()
			if !isStruct(pt) {
				continue
			}
			owner := namedKey(pt)
			tc := e.typeContract(owner)
			if tc == nil || len(tc.Invariants) == 0 {
				continue
			}
			v, ok := st.top().env[al]
			if !ok {
				continue
			}
			ov := Val{T: v.T, Typ: al.Type()}
			for i, c := range tc.Invariants {
				if d, isCond := tc.Fields[c.Lock]; isCond && d.Class == "monitor" && d.Arg != "" {
					continue // wait guards are not invariants
				}
				if d, ok := tc.Fields[c.Lock]; ok && d.Class == "token" {
					continue
				}
				if c.Lock == "api" {
					continue // precondition on values supplied by the API user: assumed, listed in the evidence
				}
				if c.Lock == "stable" {
					continue // ghost termination state of a newly constructed object is false (trusted ghost semantics)
				}
				ctx := &evalCtx{st: st, self: &ov, selfT: pt, scope: map[string]Val{}}
				g, err := e.evalBool(ctx, c.Expr)
				if err != nil {
					e.contractError(&FuncContract{Name: "type " + owner, Line: c.Line}, c, err)
					continue
				}
				e.oblige(st, "lockinv", fmt.Sprintf("init/%s.%s/%s", owner, c.Lock, clauseID(c, i)), c.Props, "constructor establishes invariant of "+owner+"."+c.Lock+": "+c.Text, g, r.Pos())
			}
		}
	}
}

// checkFrame proves that every heap write of the function (including the
// frames of its callees) falls on a fresh object, on state guarded by a
// monitor the function entered, or on a location its assigns clause lists.
func (e *Exec) checkFrame(st *State, r *ssa.Return) {
	fr := st.top()
	type cand struct{ ref string }
	for _, w := range st.writes {
		k := w.key
		if k == "*" {
			ok := "false"
			for _, as := range e.fc.Assigns {
				if as.Field == "**" {
					ok = "true"
				}
			}
			e.oblige(st, "frame", "assigns/*", e.fc.EffProps, "frame: an unbounded heap effect (unspecified callee) is announced by 'assigns *'", ok, r.Pos())
			continue
		}
		if strings.HasPrefix(k, "C:") && e.isFresh(st, w.ref) || strings.HasPrefix(k, "chan#cap") {
			continue
		}
		if e.isFresh(st, w.ref) {
			continue
		}
		base := strings.SplitN(k, "#", 2)[0]
		if st.counts["acquired"] > 0 && (strings.HasPrefix(k, "list#") || strings.HasPrefix(k, "M:") || strings.HasPrefix(k, "chan#") || strings.HasPrefix(k, "E:") || strings.HasPrefix(k, "ctx#")) {
			continue // abstract state behind guarded references: callers learn nothing about it across a monitor entry
		}
		if e.guardedByAcquired(st, base) {
			continue
		}
		var allowed []string
		whole := false
		for _, as := range e.fc.Assigns {
			if as.Field == "**" {
				whole = true
				break
			}
			if strings.HasPrefix(as.Field, "@") {
				kind := as.Field[1:]
				match := (kind == "rcancelled" && k == "recv#cancelled") || (kind == "rclosed" && k == "recv#closed") || (kind == "list" && strings.HasPrefix(k, "list#")) || (kind == "map" && strings.HasPrefix(k, "M:")) || (kind == "cancel" && k == "ctx#cancelled") ||
					(kind == "chan" && strings.HasPrefix(k, "chan#")) || (kind == "cell" && strings.HasPrefix(k, "C:")) || (kind == "elems" && strings.HasPrefix(k, "E:"))
				if !match {
					continue
				}
				for _, old := range []bool{false, true} {
					ctx := &evalCtx{st: st, scope: map[string]Val{}, fr: fr, entryScope: e.entryParams(), paramsFirst: true, inOld: old}
					if ov, err := e.evalTop(ctx, as.Obj, nil); err == nil {
						allowed = append(allowed, ov.T[len(ov.T)-1])
					} else if !old {
						whole = true
					}
				}
				continue
			}
			if as.Obj != nil && strings.HasPrefix(base, "A:") {
				ctx := &evalCtx{st: st, scope: map[string]Val{}, fr: fr, entryScope: e.entryParams(), paramsFirst: true}
				if ov, err := e.evalTop(ctx, as.Obj, nil); err == nil && ov.Typ != nil {
					if f, _ := findField(ov.Typ, as.Field); f != nil && "A:"+namedKey(f.Type()) == base {
						t := ov.Typ
						if p, ok := t.Underlying().(*types.Pointer); ok {
							t = p.Elem()
						}
						fn := e.fun(sym("sub."+namedKey(t)+"."+as.Field), []string{SInt}, SInt)
						allowed = append(allowed, app(fn, ov.T[0]))
					}
				}
				continue
			}
			if !keyMatchesField(base, as.Field) {
				continue
			}
			if as.Obj == nil {
				whole = true
				break
			}
			ctx := &evalCtx{st: st, scope: map[string]Val{}, fr: fr, entryScope: e.entryParams(), paramsFirst: true}
			ov, err := e.evalTop(ctx, as.Obj, nil)
			if err != nil {
				e.contractError(e.fc, &Clause{Text: "assigns " + as.Text, Line: e.fc.Line}, err)
				whole = true
				break
			}
			allowed = append(allowed, e.objRefsFor(st, ov, base)...)
		}
		if whole {
			continue
		}
		goal := "false"
		var alts []string
		for _, a := range allowed {
			if a == w.ref {
				goal = "true"
			}
			alts = append(alts, tEq(w.ref, a))
		}
		if goal != "true" {
			for _, f := range st.fresh {
				alts = append(alts, tEq(w.ref, f))
			}
			goal = tOr(alts...)
		}
		e.oblige(st, "frame", "assigns/"+k, e.fc.EffProps, "frame: "+k+" is written only where the assigns clause allows", goal, r.Pos())
	}
}

// guardedByAcquired: key is a field array of a field guarded by a monitor this path entered.
func (e *Exec) guardedByAcquired(st *State, base string) bool {
	if !strings.HasPrefix(base, "F:") {
		return false
	}
	rest := base[2:]
	i := strings.Index(rest, ".")
	if i < 0 {
		return false
	}
	owner, field := rest[:i], rest[i+1:]
	if j := strings.Index(field, "."); j >= 0 {
		field = field[:j]
	}
	tc := e.typeContract(owner)
	if tc == nil {
		return false
	}
	d, ok := tc.Fields[field]
	if !ok || d.Class != "guarded_by" {
		return false
	}
	for _, ev := range st.events {
		for _, g := range strings.FieldsFunc(d.Arg, func(r rune) bool { return r == '&' || r == '|' || r == ' ' || r == ',' }) {
			if ev == "lock:"+owner+"."+g {
				return true
			}
		}
	}
	return false
}

func keyMatchesField(base, field string) bool {
	if field == "*" {
		return true
	}
	return strings.HasSuffix(base, "."+field) || strings.Contains(base, "."+field+".") || base == field
}

// objRefsFor: the index at which arrays of key base are written for object ov.
func (e *Exec) objRefsFor(st *State, ov Val, base string) []string {
	refs := []string{ov.T[len(ov.T)-1]}
	if strings.HasPrefix(base, "A:") || strings.Contains(base, ".") {
		// sub-objects (atomics, embedded structs) are indexed by injected refs; allow any sub ref of the object
		t := ov.Typ
		if p, ok := t.Underlying().(*types.Pointer); ok {
			t = p.Elem()
		}
		if su, ok := t.Underlying().(*types.Struct); ok {
			owner := namedKey(t)
			for i := 0; i < su.NumFields(); i++ {
				if isStruct(su.Field(i).Type()) {
					fn := e.fun(sym("sub."+owner+"."+su.Field(i).Name()), []string{SInt}, SInt)
					refs = append(refs, app(fn, ov.T[0]))
				}
			}
		}
	}
	return refs
}

// ---------------- results ----------------

type FuncResult struct {
	Name       string
	Insts      []*Instance
	Paths      int
	OutOfReach string
	Decls      []string // SMT preamble for this function
	Axioms     []string
	Blocks     int
	Instrs     int
	Notes      []string
}

// VerifyFunction runs the executor and returns its obligations.
func VerifyFunction(prog *Program, cs *Contracts, fn *ssa.Function, sweep bool, sweepProps []string) *FuncResult {
	e := newExec(prog, cs, fn)
	e.sweepNoPanic = sweep
	if sweep {
		e.nopanicProps = sweepProps
	}
	e.Run()
	if e.fc != nil && e.outOfReach == "" {
		// every at-clause must have matched at least one instruction on some path
		for i, c := range e.fc.At {
			if e.atHits[c] == 0 && !c.Optional {
				e.insts = append(e.insts, &Instance{Name: fmt.Sprintf("%s/anchor/%s/%s", e.fname, c.Anchor, clauseID(c, i)), Kind: "anchor", Func: e.fname, Props: c.Props,
					Clause: "anchor " + c.Anchor.String() + " of clause '" + c.Text + "' matches an instruction", Goal: "false"})
			}
		}
		for n, cl := range e.fc.LoopInv {
			if n > len(e.loopsOf(e.fn)) {
				for i, c := range cl {
					e.insts = append(e.insts, &Instance{Name: fmt.Sprintf("%s/anchor/loop%d/%s", e.fname, n, clauseID(c, i)), Kind: "anchor", Func: e.fname, Props: c.Props,
						Clause: fmt.Sprintf("loop %d exists", n), Goal: "false"})
				}
			}
		}
	}
	if sweep && e.fc != nil && e.fc.HasNoPanic {
		e.nopanicProps = append(e.nopanicProps, e.fc.NoPanicProps...)
	}
	res := &FuncResult{Name: e.fname, Insts: e.insts, Paths: e.paths + 1, OutOfReach: e.outOfReach, Axioms: e.axioms, Blocks: len(fn.Blocks)}
	for _, b := range fn.Blocks {
		res.Instrs += len(b.Instrs)
	}
	var decls []string
	for _, n := range e.declOrder {
		decls = append(decls, fmt.Sprintf("(declare-fun %s () %s)", n, e.decls[n]))
	}
	for _, n := range e.funOrder {
		decls = append(decls, e.funs[n])
	}
	res.Decls = decls
	noteSet := map[string]bool{}
	for _, in := range e.insts {
		for _, n := range in.Notes {
			noteSet[n] = true
		}
	}
	for n := range noteSet {
		res.Notes = append(res.Notes, n)
	}
	sort.Strings(res.Notes)
	return res
}
