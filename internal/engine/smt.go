package engine

import (
	"bytes"
	"context"
	"crypto/sha256"
	"fmt"
	"os/exec"
	"strings"
	"sync"
	"time"
)

type SolveResult struct {
	Status string // unsat sat unknown timeout error
	Solver string
	Ms     int64
	Model  string
	Raw    string
	Agree  []string // thorough tier: every solver's answer
}

type solverSpec struct {
	name string
	cmd  func(timeoutS int) []string
	pre  string
}

var solvers = []solverSpec{
	{"z3-5.1", func(t int) []string { return []string{"z3-new", "-in", fmt.Sprintf("-T:%d", t)} }, ""},
	{"cvc5-1.0", func(t int) []string {
		return []string{"cvc5", "--lang=smt2", "--produce-models", fmt.Sprintf("--tlimit=%d", t*1000), "-"}
	}, "(set-logic ALL)\n"},
	{"z3-4.8", func(t int) []string { return []string{"/usr/bin/z3", "-in", fmt.Sprintf("-T:%d", t)} }, ""},
}

func runSolver(ctx context.Context, sp solverSpec, query string, timeoutS int, wantModel bool) SolveResult {
	ctx, cancel := context.WithTimeout(ctx, time.Duration(timeoutS+2)*time.Second)
	defer cancel()
	args := sp.cmd(timeoutS)
	cmd := exec.CommandContext(ctx, args[0], args[1:]...)
	q := sp.pre + query + "(check-sat)\n"
	if wantModel {
		q += "(get-model)\n"
	}
	cmd.Stdin = strings.NewReader(q)
	var out bytes.Buffer
	cmd.Stdout = &out
	cmd.Stderr = &out
	t0 := time.Now()
	_ = cmd.Run()
	ms := time.Since(t0).Milliseconds()
	s := out.String()
	first := strings.TrimSpace(strings.SplitN(s, "\n", 2)[0])
	r := SolveResult{Solver: sp.name, Ms: ms, Raw: s}
	switch {
	case first == "unsat":
		r.Status = "unsat"
	case first == "sat":
		r.Status = "sat"
		if i := strings.Index(s, "\n"); i >= 0 {
			r.Model = s[i+1:]
		}
	case first == "unknown":
		r.Status = "unknown"
	case strings.Contains(first, "timeout") || ctx.Err() != nil:
		r.Status = "timeout"
	default:
		r.Status = "error"
	}
	return r
}

var (
	solveCache   = map[[32]byte]SolveResult{}
	solveCacheMu sync.Mutex
	solverSem    = make(chan struct{}, 24)
)

// Solve races the portfolio: all solvers start together, the first definite
// answer wins and the others are killed (quick tier). In the thorough tier
// every solver runs to completion and all definite answers must agree.
func Solve(query string, timeoutS int, thorough bool, expectSat bool) SolveResult {
	h := sha256.Sum256([]byte(query))
	solveCacheMu.Lock()
	if r, ok := solveCache[h]; ok {
		solveCacheMu.Unlock()
		return r
	}
	solveCacheMu.Unlock()
	ctx, cancel := context.WithCancel(context.Background())
	defer cancel()
	ch := make(chan SolveResult, len(solvers))
	t0 := time.Now()
	// fast path: most obligations fall to z3 in milliseconds; give it a short head start
	head := runSolverSem(ctx, solvers[0], query, 1)
	var final SolveResult
	decided := false
	var agree []string
	agree = append(agree, head.Solver+":"+head.Status)
	if head.Status == "unsat" || head.Status == "sat" {
		final, decided = head, true
	}
	if !decided || thorough {
		rest := solvers
		if decided {
			rest = solvers[1:]
		}
		for _, sp := range rest {
			go func(sp solverSpec) { ch <- runSolverSem(ctx, sp, query, timeoutS) }(sp)
		}
		for range rest {
			r := <-ch
			agree = append(agree, r.Solver+":"+r.Status)
			if DebugSolver && r.Status != "unsat" && r.Status != "sat" {
				fmt.Printf("    [solver %s -> %s in %dms: %s]\n", r.Solver, r.Status, r.Ms, truncate(strings.TrimSpace(r.Raw), 200))
			}
			if r.Status == "unsat" || r.Status == "sat" {
				if !decided {
					final, decided = r, true
					if !thorough {
						cancel()
						break
					}
				} else if final.Status != r.Status {
					final.Status = "error"
					final.Raw = "SOLVER DISAGREEMENT: " + strings.Join(agree, " ")
				}
			} else if !decided {
				final = r
			}
		}
	}
	final.Ms = time.Since(t0).Milliseconds()
	final.Agree = agree
	solveCacheMu.Lock()
	solveCache[h] = final
	solveCacheMu.Unlock()
	return final
}

func runSolverSem(ctx context.Context, sp solverSpec, query string, timeoutS int) SolveResult {
	solverSem <- struct{}{}
	defer func() { <-solverSem }()
	if ctx.Err() != nil {
		return SolveResult{Solver: sp.name, Status: "cancelled"}
	}
	return runSolver(ctx, sp, query, timeoutS, true)
}

// BuildQuery renders one obligation instance as SMT-LIB (without check-sat).
func BuildQuery(fr *FuncResult, in *Instance) string {
	var sb strings.Builder
	for _, d := range fr.Decls {
		sb.WriteString(d)
		sb.WriteByte('\n')
	}
	for _, a := range fr.Axioms {
		sb.WriteString("(assert " + a + ")\n")
	}
	for _, a := range in.Assumes {
		sb.WriteString("(assert " + a + ")\n")
	}
	if !in.Cover {
		sb.WriteString("(assert (not " + in.Goal + "))\n")
	}
	return sb.String()
}
