package engine

import (
	"bytes"
	"context"
	"crypto/sha256"
	"fmt"
	"os/exec"
	"regexp"
	"strconv"
	"strings"
	"sync"
	"time"
)

type SolveResult struct {
	Status string // unsat sat unknown timeout error
	Solver string
	Ms     int64
	Model  string
	Raw    string
	Agree  []string // thorough tier: every solver's answer
}

type solverSpec struct {
	name      string
	cmd       func(timeoutS int) []string
	pre       string
	unsatOnly bool // configuration that drops axioms: only its unsat answers are used
	rewrite   func(string) string // equivalent reformulation of the query for this configuration
}

var solvers = []solverSpec{
	// the monotone-interference axioms (forall x. A[x] => B[x]) restated without a
	// quantifier as B = A or D for a fresh D (equivalent: take D = B). z3 then finds
	// models (failing inputs) in milliseconds where the quantified form times out.
	{"z3-5.1-map", func(t int) []string { return []string{"z3-new", "-in", fmt.Sprintf("-T:%d", t)} }, "", false, monotoneAsMap},
	{"z3-5.1", func(t int) []string { return []string{"z3-new", "-in", fmt.Sprintf("-T:%d", t)} }, "", false, nil},
	{"cvc5-1.0", func(t int) []string {
		return []string{"cvc5", "--lang=smt2", "--produce-models", fmt.Sprintf("--tlimit=%d", t*1000), "-"}
	}, "(set-logic ALL)\n", false, nil},
	{"z3-4.8", func(t int) []string { return []string{"/usr/bin/z3", "-in", fmt.Sprintf("-T:%d", t)} }, "", false, nil},
	// same solver without array extensionality instantiation: much faster on the quantified
	// slice obligations; dropping an axiom keeps unsat answers valid, sat answers are ignored
	{"z3-5.1-noext", func(t int) []string {
		return []string{"z3-new", "-in", fmt.Sprintf("-T:%d", t), "smt.array.extensional=false"}
	}, "", true, nil},
}

var monoAxiomRe = regexp.MustCompile(`\(assert \(forall \(\((\|x![0-9]+\|) Int\)\) \(! \(=> \(select (\|[^|]+\|) (\|x![0-9]+\|)\) \(select (\|[^|]+\|) (\|x![0-9]+\|)\)\) :pattern \(\(select (\|[^|]+\|) (\|x![0-9]+\|)\)\)\)\)\)`)

func monotoneAsMap(q string) string {
	n := 0
	return monoAxiomRe.ReplaceAllStringFunc(q, func(m string) string {
		g := monoAxiomRe.FindStringSubmatch(m)
		if g[1] != g[3] || g[1] != g[5] || g[1] != g[7] || g[4] != g[6] {
			return m
		}
		n++
		d := fmt.Sprintf("|mono:D%d|", n)
		return fmt.Sprintf("(declare-const %s (Array Int Bool))\n(assert (= %s ((_ map or) %s %s)))", d, g[4], g[2], d)
	})
}

// Solver budgets are CPU seconds (ulimit -t), not wall-clock seconds: on a busy
// machine a query then takes longer but gets the same amount of work done, so
// that verdicts do not depend on the load. The solver's own wall-clock limit and
// the context deadline are generous backstops (15 times the budget).
func runSolver(ctx context.Context, sp solverSpec, query string, timeoutS int, wantModel bool) SolveResult {
	wall := timeoutS * 15
	if wall < 120 {
		wall = 120
	}
	ctx, cancel := context.WithTimeout(ctx, time.Duration(wall+5)*time.Second)
	defer cancel()
	args := sp.cmd(wall)
	sh := fmt.Sprintf("ulimit -t %d; exec \"$@\"", timeoutS+1)
	cmd := exec.CommandContext(ctx, "/bin/sh", append([]string{"-c", sh, "solver"}, args...)...)
	if sp.rewrite != nil {
		query = sp.rewrite(query)
	}
	q := sp.pre + query + "(check-sat)\n"
	if wantModel {
		q += "(get-model)\n"
	}
	cmd.Stdin = strings.NewReader(q)
	var out bytes.Buffer
	cmd.Stdout = &out
	cmd.Stderr = &out
	t0 := time.Now()
	_ = cmd.Run()
	ms := time.Since(t0).Milliseconds()
	s := out.String()
	first := strings.TrimSpace(strings.SplitN(s, "\n", 2)[0])
	r := SolveResult{Solver: sp.name, Ms: ms, Raw: s}
	switch {
	case first == "unsat":
		r.Status = "unsat"
	case first == "sat" && sp.unsatOnly:
		r.Status = "unknown"
	case first == "sat":
		r.Status = "sat"
		if i := strings.Index(s, "\n"); i >= 0 {
			r.Model = s[i+1:]
		}
	case first == "unknown":
		r.Status = "unknown"
	case strings.Contains(first, "timeout") || ctx.Err() != nil:
		r.Status = "timeout"
	case cmd.ProcessState != nil && !cmd.ProcessState.Exited():
		// killed by a signal: the CPU budget (SIGXCPU / SIGKILL from ulimit -t)
		r.Status = "timeout"
	case first == "" || strings.Contains(s, "Killed") || strings.Contains(s, "CPU time limit"):
		r.Status = "timeout"
	default:
		r.Status = "error"
	}
	return r
}

var (
	solveCache   = map[[32]byte]SolveResult{}
	solveCacheMu sync.Mutex
	solverSem    = make(chan struct{}, 16)
)

// Solve races the portfolio: all solvers start together, the first definite
// answer wins and the others are killed (quick tier). In the thorough tier
// every solver runs to completion and all definite answers must agree.
func Solve(query string, timeoutS int, thorough bool, expectSat bool) SolveResult {
	h := sha256.Sum256([]byte(query))
	solveCacheMu.Lock()
	if r, ok := solveCache[h]; ok {
		solveCacheMu.Unlock()
		return r
	}
	solveCacheMu.Unlock()
	ctx, cancel := context.WithCancel(context.Background())
	defer cancel()
	ch := make(chan SolveResult, len(solvers))
	t0 := time.Now()
	// fast path: most obligations fall to z3 in milliseconds; give it a short head start
	head := runSolverSem(ctx, solvers[0], query, 1)
	var final SolveResult
	decided := false
	var agree []string
	agree = append(agree, head.Solver+":"+head.Status)
	if head.Status == "unsat" || head.Status == "sat" {
		final, decided = head, true
	}
	if !decided || thorough {
		rest := solvers
		if decided {
			rest = solvers[1:]
		}
		for _, sp := range rest {
			go func(sp solverSpec) { ch <- runSolverSem(ctx, sp, query, timeoutS) }(sp)
		}
		for range rest {
			r := <-ch
			agree = append(agree, r.Solver+":"+r.Status)
			if DebugSolver && r.Status != "unsat" && r.Status != "sat" {
				fmt.Printf("    [solver %s -> %s in %dms: %s]\n", r.Solver, r.Status, r.Ms, truncate(strings.TrimSpace(r.Raw), 200))
			}
			if r.Status == "unsat" || r.Status == "sat" {
				if !decided {
					final, decided = r, true
					if !thorough {
						cancel()
						break
					}
				} else if final.Status != r.Status {
					final.Status = "error"
					final.Raw = "SOLVER DISAGREEMENT: " + strings.Join(agree, " ")
				}
			} else if !decided {
				final = r
			}
		}
	}
	final.Ms = time.Since(t0).Milliseconds()
	final.Agree = agree
	solveCacheMu.Lock()
	solveCache[h] = final
	solveCacheMu.Unlock()
	return final
}

func runSolverSem(ctx context.Context, sp solverSpec, query string, timeoutS int) SolveResult {
	solverSem <- struct{}{}
	defer func() { <-solverSem }()
	if ctx.Err() != nil {
		return SolveResult{Solver: sp.name, Status: "cancelled"}
	}
	return runSolver(ctx, sp, query, timeoutS, true)
}

// BuildQuery renders one obligation instance as SMT-LIB (without check-sat).
func BuildQuery(fr *FuncResult, in *Instance) string {
	var sb strings.Builder
	for _, d := range fr.Decls {
		sb.WriteString(d)
		sb.WriteByte('\n')
	}
	for _, a := range fr.Axioms {
		sb.WriteString("(assert " + a + ")\n")
	}
	for _, a := range in.Assumes {
		sb.WriteString("(assert " + a + ")\n")
	}
	if !in.Cover {
		sb.WriteString("(assert (not " + in.Goal + "))\n")
	}
	return sb.String()
}

// BuildGroupQuery renders all path instances of one obligation as a single
// query: the disjunction over paths of (path assumptions and negated goal).
// unsat means every instance is valid.
func BuildGroupQuery(fr *FuncResult, ins []*Instance) string {
	var sb strings.Builder
	for _, d := range fr.Decls {
		sb.WriteString(d)
		sb.WriteByte('\n')
	}
	for _, a := range fr.Axioms {
		sb.WriteString("(assert " + a + ")\n")
	}
	// assumptions common to every instance are asserted once
	common := map[string]int{}
	for _, in := range ins {
		seen := map[string]bool{}
		for _, a := range in.Assumes {
			if !seen[a] {
				seen[a] = true
				common[a]++
			}
		}
	}
	isCommon := func(a string) bool { return common[a] == len(ins) }
	emitted := map[string]bool{}
	for _, in := range ins {
		for _, a := range in.Assumes {
			if isCommon(a) && !emitted[a] {
				emitted[a] = true
				sb.WriteString("(assert " + a + ")\n")
			}
		}
	}
	sb.WriteString("(assert (or\n")
	for _, in := range ins {
		sb.WriteString(" (and true")
		for _, a := range in.Assumes {
			if !isCommon(a) {
				sb.WriteString(" " + a)
			}
		}
		if !in.Cover {
			sb.WriteString(" (not " + in.Goal + ")")
		}
		sb.WriteString(")\n")
	}
	sb.WriteString("))\n")
	return sb.String()
}

// SolveGroup decides one obligation (all its path instances). It first tries
// the combined query; if that is not unsat it solves instance by instance to
// locate the failing path. Returns the overall status and the failing instance.
func SolveGroup(fr *FuncResult, ins []*Instance, timeoutS int, thorough bool) (string, *Instance, SolveResult) {
	var work []*Instance
	for _, in := range ins {
		if !in.Cover && in.Goal == "true" {
			continue
		}
		work = append(work, in)
	}
	if len(work) == 0 {
		return "unsat", nil, SolveResult{Status: "unsat", Solver: "trivial"}
	}
	cover := work[0].Cover
	if len(work) > 6 {
		return solveEach(fr, work, timeoutS, thorough, cover)
	}
	if len(work) > 1 {
		r := Solve(BuildGroupQuery(fr, work), timeoutS, thorough, cover)
		if cover && r.Status == "sat" {
			return "sat", nil, r
		}
		if !cover && r.Status == "unsat" {
			return "unsat", nil, r
		}
	}
	var total int64
	var lastUnknown *Instance
	var lastUnknownRes SolveResult
	allUnsat := true
	for _, in := range work {
		r := Solve(BuildQuery(fr, in), timeoutS, thorough, cover)
		total += r.Ms
		if cover {
			if r.Status != "unsat" {
				r.Ms = total
				return "sat", in, r
			}
			continue
		}
		switch r.Status {
		case "unsat":
		case "sat":
			r.Ms = total
			return "sat", in, r
		default:
			allUnsat = false
			lastUnknown, lastUnknownRes = in, r
		}
	}
	if cover {
		return "unsat", work[0], SolveResult{Status: "unsat", Ms: total}
	}
	if allUnsat {
		return "unsat", nil, SolveResult{Status: "unsat", Ms: total, Solver: "z3-5.1"}
	}
	lastUnknownRes.Ms = total
	return lastUnknownRes.Status, lastUnknown, lastUnknownRes
}

// solveEach solves the instances of an obligation concurrently (bounded by the solver semaphore).
func solveEach(fr *FuncResult, work []*Instance, timeoutS int, thorough, cover bool) (string, *Instance, SolveResult) {
	type out struct {
		in *Instance
		r  SolveResult
	}
	ch := make(chan out, len(work))
	t0 := time.Now()
	for _, in := range work {
		go func(in *Instance) { ch <- out{in, Solve(BuildQuery(fr, in), timeoutS, thorough, cover)} }(in)
	}
	var sat, unk *out
	for range work {
		o := <-ch
		o2 := o
		switch {
		case cover && o.r.Status != "unsat":
			if sat == nil {
				sat = &o2
			}
		case !cover && o.r.Status == "sat":
			if sat == nil {
				sat = &o2
			}
		case !cover && o.r.Status != "unsat":
			if unk == nil {
				unk = &o2
			}
		}
	}
	ms := time.Since(t0).Milliseconds()
	if sat != nil {
		sat.r.Ms = ms
		return "sat", sat.in, sat.r
	}
	if unk != nil {
		unk.r.Ms = ms
		return unk.r.Status, unk.in, unk.r
	}
	return "unsat", nil, SolveResult{Status: "unsat", Ms: ms, Solver: "z3-5.1"}
}

// GetValues asks the solver that found a model for the values of the given terms.
func GetValues(query string, solver string, terms []string, timeoutS int) map[string]string {
	out := map[string]string{}
	if len(terms) == 0 {
		return out
	}
	var sp *solverSpec
	for i := range solvers {
		if solvers[i].name == solver {
			sp = &solvers[i]
		}
	}
	if sp == nil {
		sp = &solvers[0]
	}
	args := sp.cmd(timeoutS)
	cmd := exec.Command(args[0], args[1:]...)
	var sb strings.Builder
	sb.WriteString(sp.pre + query + "(check-sat)\n")
	for _, t := range terms {
		sb.WriteString("(get-value (" + t + "))\n")
	}
	cmd.Stdin = strings.NewReader(sb.String())
	var buf bytes.Buffer
	cmd.Stdout = &buf
	_ = cmd.Run()
	lines := strings.Split(buf.String(), "\n")
	if len(lines) == 0 || strings.TrimSpace(lines[0]) != "sat" {
		return out
	}
	rest := strings.Join(lines[1:], "\n")
	// each answer is ((term value)); values are the last token group
	i := 0
	for _, t := range terms {
		j := strings.Index(rest[i:], "((")
		if j < 0 {
			break
		}
		start := i + j
		depth := 0
		end := start
		for k := start; k < len(rest); k++ {
			if rest[k] == '(' {
				depth++
			} else if rest[k] == ')' {
				depth--
				if depth == 0 {
					end = k
					break
				}
			}
		}
		ans := rest[start+2 : end-1]
		// strip the echoed term
		val := strings.TrimSpace(strings.TrimPrefix(strings.TrimSpace(ans), t))
		if val == ans {
			// term was re-printed differently: take the last atom / parenthesised group
			if p := strings.LastIndexAny(ans, " \n"); p >= 0 {
				val = strings.TrimSpace(ans[p:])
			}
		}
		out[t] = val
		i = end + 1
	}
	return out
}

// smtValueToInt parses #x.., #b.., decimal and (- n) values.
func smtValueToInt(v string) (int64, bool) {
	v = strings.TrimSpace(v)
	switch {
	case strings.HasPrefix(v, "#x"):
		u, err := strconv.ParseUint(v[2:], 16, 64)
		return int64(u), err == nil
	case strings.HasPrefix(v, "#b"):
		u, err := strconv.ParseUint(v[2:], 2, 64)
		return int64(u), err == nil
	case strings.HasPrefix(v, "(- "):
		n, err := strconv.ParseInt(strings.TrimSuffix(strings.TrimPrefix(v, "(- "), ")"), 10, 64)
		return -n, err == nil
	case v == "true":
		return 1, true
	case v == "false":
		return 0, true
	}
	n, err := strconv.ParseInt(v, 10, 64)
	return n, err == nil
}
