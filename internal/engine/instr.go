package engine

import (
	"fmt"
	"go/token"
	"go/types"
	"strings"

	"golang.org/x/tools/go/ssa"
)

// step executes one non-terminator instruction. It returns true when it has
// taken over control flow (forked and continued the block itself).
func (e *Exec) step(st *State, in ssa.Instruction, b *ssa.BasicBlock, idx int) bool {
	fr := st.top()
	switch x := in.(type) {
	case *ssa.DebugRef:
		if n := identName(x); n != "" && n != "_" {
			v := e.val(st, x.X)
			if x.IsAddr {
				if v.Loc != nil {
					fr.varAddr[n] = v.Loc
					delete(fr.vars, n)
				} else if _, isAlloc := x.X.(*ssa.Alloc); isAlloc {
					fr.varAddr[n] = e.derefLoc(st, v, x.X.Type().(*types.Pointer).Elem())
				}
			} else if sv := singleValueOf(x); sv != nil {
				if fr.lazy == nil {
					fr.lazy = map[string]ssa.Value{}
				}
				fr.lazy[n] = sv
				delete(fr.vars, n)
				delete(fr.varAddr, n)
			} else {
				fr.vars[n] = v
				delete(fr.varAddr, n)
			}
		}
	case *ssa.Alloc:
		e.doAlloc(st, x)
	case *ssa.BinOp:
		fr.env[x] = e.binop(st, x)
	case *ssa.UnOp:
		return e.unop(st, x, b, idx)
	case *ssa.Convert:
		fr.env[x] = e.convert(st, x)
	case *ssa.ChangeType:
		v := e.val(st, x.X)
		v.Typ = x.Type()
		fr.env[x] = v
	case *ssa.ChangeInterface:
		v := e.val(st, x.X)
		v.Typ = x.Type()
		fr.env[x] = v
	case *ssa.MakeInterface:
		fr.env[x] = e.makeInterface(st, x)
	case *ssa.TypeAssert:
		e.typeAssert(st, x)
	case *ssa.FieldAddr:
		base := e.val(st, x.X)
		pt := x.X.Type().Underlying().(*types.Pointer).Elem()
		e.nopanic(st, "nilderef", x, tNot(tEq(base.T[0], "0")))
		if base.Sub != nil || base.Loc == nil {
			v, _ := e.fieldLoc(st, base, pt, x.Field)
			fr.env[x] = v
		} else {
			// pointer is itself a tracked location of struct type (e.g. &slice[i]) -> field of element
			su := pt.Underlying().(*types.Struct)
			f := su.Field(x.Field)
			loc := &Loc{Key: subKey(base.Loc.Key, f.Name()), Typ: f.Type(), Ref: base.Loc.Ref, Idx: base.Loc.Idx, Owner: namedKey(pt), Field: f.Name(), Local: base.Loc.Local}
			fr.env[x] = Val{T: []string{e.fresh("addr", SInt)}, Typ: x.Type(), Loc: loc}
		}
	case *ssa.Field:
		sv := e.val(st, x.X)
		su := x.X.Type().Underlying().(*types.Struct)
		off := 0
		for i := 0; i < x.Field; i++ {
			off += len(shape(su.Field(i).Type()))
		}
		n := len(shape(su.Field(x.Field).Type()))
		if off+n > len(sv.T) {
			fr.env[x] = e.freshVal("field", x.Type())
		} else {
			v := Val{T: sv.T[off : off+n], Typ: x.Type()}
			if _, ok := x.Type().Underlying().(*types.Signature); ok {
				v.Prov = "(" + namedKey(x.X.Type()) + ")." + su.Field(x.Field).Name()
			}
			fr.env[x] = v
		}
	case *ssa.IndexAddr:
		e.indexAddr(st, x)
	case *ssa.Index:
		e.index(st, x)
	case *ssa.Slice:
		e.slice(st, x)
	case *ssa.Lookup:
		e.lookup(st, x)
	case *ssa.MapUpdate:
		e.mapUpdate(st, x)
	case *ssa.MakeMap:
		r := e.allocRef(st, "map")
		fr.env[x] = Val{T: []string{r}, Typ: x.Type()}
		e.initMap(st, r, x.Type())
	case *ssa.MakeSlice:
		e.makeSlice(st, x)
	case *ssa.MakeChan:
		r := e.allocRef(st, "chan")
		fr.env[x] = Val{T: []string{r}, Typ: x.Type()}
		e.initChan(st, r, e.val(st, x.Size))
	case *ssa.MakeClosure:
		fn := x.Fn.(*ssa.Function)
		c := &Closure{Fn: fn}
		for _, bnd := range x.Bindings {
			c.Bindings = append(c.Bindings, e.val(st, bnd))
		}
		fr.env[x] = Val{T: []string{e.allocRef(st, "clo:"+fn.Name())}, Typ: x.Type(), Clo: c}
	case *ssa.Extract:
		tv := e.val(st, x.Tuple)
		tt := x.Tuple.Type().(*types.Tuple)
		off := 0
		for i := 0; i < x.Index; i++ {
			off += len(shape(tt.At(i).Type()))
		}
		n := len(shape(tt.At(x.Index).Type()))
		if off+n > len(tv.T) {
			fr.env[x] = e.freshVal("extract", x.Type())
		} else {
			fr.env[x] = Val{T: tv.T[off : off+n], Typ: x.Type()}
		}
	case *ssa.Store:
		addr := e.val(st, x.Addr)
		v := e.val(st, x.Val)
		pt := x.Addr.Type().Underlying().(*types.Pointer).Elem()
		if addr.Loc == nil {
			e.nopanic(st, "nilderef", x, tNot(tEq(addr.T[0], "0")))
		}
		if isStruct(pt) && addr.Loc == nil && !isOpaqueStruct(pt) {
			e.storeStruct(st, addr.T[0], pt, v)
			e.atAnchor(st, x, nil, nil)
			break
		}
		loc := e.derefLoc(st, addr, pt)
		e.checkAccess(st, loc, true, x)
		e.escapeIfStored(st, loc, v)
		e.storeTo(st, loc, v)
		// at store: arg0 is the address stored through, arg1 the value stored
		e.atAnchor(st, x, []Val{{T: []string{addr.T[0]}, Typ: x.Addr.Type()}, v}, nil)
		if id, ok := fr.ordinals[x]; ok && id.kind == "store" && id.target != "" {
			st.counts["store:"+id.target]++
		}
	case *ssa.Call:
		return e.call(st, x, &x.Call, b, idx)
	case *ssa.Defer:
		d := deferred{call: &x.Call, instr: x}
		if !x.Call.IsInvoke() {
			d.fn = e.val(st, x.Call.Value)
		} else {
			d.fn = e.val(st, x.Call.Value)
		}
		for _, a := range x.Call.Args {
			d.args = append(d.args, e.val(st, a))
		}
		fr.defers = append(fr.defers, d)
	case *ssa.RunDefers:
		return e.runDefers(st, b, idx)
	case *ssa.Go:
		e.doGo(st, x)
	case *ssa.Select:
		return e.doSelect(st, x, b, idx)
	case *ssa.Send:
		e.chanSend(st, x)
	case *ssa.Range:
		fr.env[x] = Val{T: []string{e.val(st, x.X).T[0]}, Typ: x.Type()}
		if mt, ok := x.X.Type().Underlying().(*types.Map); ok {
			// ghost set of keys already yielded by this iteration
			vs := arr(e.mapKeySort(mt), SBool)
			st.ghost["$visited"] = Val{T: []string{fmt.Sprintf("((as const %s) false)", vs)}, Typ: ghostSetT(mt)}
		}
	case *ssa.Next:
		e.next(st, x)
	default:
		st.note("unmodelled instruction %T in %s: result havoc'd", in, FuncName(fr.fn))
		if v, ok := in.(ssa.Value); ok {
			fr.env[v] = e.freshVal("hv", v.Type())
		}
	}
	return false
}

func (e *Exec) allocRef(st *State, hint string) string {
	k := len(st.fresh) - st.subFresh + 1
	// fresh references are numbered from BASE, so they are distinct from each
	// other and from everything in the entry state; a per-exec counter keeps
	// refs on different paths apart as well.
	e.ctr++
	r := e.declare(sym(fmt.Sprintf("new:%s!%d", hint, e.ctr)), SInt)
	st.assume(tEq(r, app("+", "BASE", intLit(int64(k)))))
	// every reference currently stored as a map value predates this allocation
	for _, key := range sortedKeys(st.heap) {
		if !strings.HasPrefix(key, "M:") || !strings.Contains(key, "#val") || strings.Contains(key, "#val#") || strings.Contains(key, "#val.") {
			continue
		}
		srt, ok := e.decls[st.heap[key]]
		if !ok || !strings.HasSuffix(srt, " Int))") {
			continue
		}
		ks := strings.TrimSuffix(strings.TrimPrefix(srt, "(Array Int (Array "), " Int))")
		m, kk := e.freshName("m"), e.freshName("k")
		a := st.heap[key]
		st.assume(fmt.Sprintf("(forall ((%s Int) (%s %s)) (! (< (select (select %s %s) %s) %s) :pattern ((select (select %s %s) %s))))", m, kk, ks, a, m, kk, r, a, m, kk))
	}
	st.fresh = append(st.fresh, r)
	return r
}

func (e *Exec) isFresh(st *State, ref string) bool {
	for _, r := range st.fresh {
		if r == ref {
			return true
		}
	}
	return false
}

func (e *Exec) doAlloc(st *State, x *ssa.Alloc) {
	fr := st.top()
	pt := x.Type().(*types.Pointer).Elem()
	r := e.allocRef(st, "alloc:"+x.Comment)
	if isStruct(pt) && !isOpaqueStruct(pt) {
		// zero-initialise every non-struct field of the new object
		e.zeroStruct(st, r, pt)
		fr.env[x] = Val{T: []string{r}, Typ: x.Type()}
		return
	}
	if _, ok := pt.Underlying().(*types.Array); ok {
		fr.env[x] = Val{T: []string{r}, Typ: x.Type()}
		return
	}
	key := cellKey(pt)
	loc := &Loc{Key: key, Typ: pt, Ref: r, Local: true, WriteOnce: cellWriteOnce(x)}
	st.cells[r] = e.zeroVal(pt)
	fr.env[x] = Val{T: []string{r}, Typ: x.Type(), Loc: loc}
}

// cellWriteOnce: the variable cell is stored to at most once in its function
// and never by a closure that captures it: capturing it cannot change it.
func cellWriteOnce(a *ssa.Alloc) bool {
	stores := 0
	var visit func(v ssa.Value) bool
	visit = func(v ssa.Value) bool {
		refs := v.Referrers()
		if refs == nil {
			return false
		}
		for _, r := range *refs {
			switch x := r.(type) {
			case *ssa.Store:
				if x.Addr == v {
					stores++
				} else {
					return false // address stored somewhere
				}
			case *ssa.UnOp, *ssa.DebugRef:
			case *ssa.MakeClosure:
				fn := x.Fn.(*ssa.Function)
				for i, b := range x.Bindings {
					if b == v && i < len(fn.FreeVars) {
						if !visit(fn.FreeVars[i]) {
							return false
						}
					}
				}
			default:
				return false
			}
		}
		return true
	}
	return visit(a) && stores <= 1
}

func (e *Exec) zeroStruct(st *State, r string, t types.Type) {
	su := t.Underlying().(*types.Struct)
	owner := namedKey(t)
	for i := 0; i < su.NumFields(); i++ {
		f := su.Field(i)
		if isStruct(f.Type()) {
			fn := e.fun(sym("sub."+owner+"."+f.Name()), []string{SInt}, SInt)
			st.fresh = append(st.fresh, app(fn, r))
			st.subFresh++
			if !isOpaqueStruct(f.Type()) {
				e.zeroStruct(st, app(fn, r), f.Type())
			} else {
				e.zeroOpaque(st, app(fn, r), f.Type())
			}
			continue
		}
		loc := &Loc{Key: fieldKey(owner, f.Name()), Typ: f.Type(), Ref: r}
		e.storeTo(st, loc, e.zeroVal(f.Type()))
	}
}

func (e *Exec) zeroOpaque(st *State, r string, t types.Type) {
	switch namedKey(t) {
	case "atomic.Uint32", "atomic.Bool", "atomic.Int64", "atomic.Int32", "atomic.Uint64":
		loc := e.atomicLoc(r, t)
		e.storeTo(st, loc, e.zeroVal(loc.Typ))
	case "atomic.Pointer":
		loc := e.atomicLoc(r, t)
		e.storeTo(st, loc, e.zeroVal(loc.Typ))
	}
}

func (e *Exec) atomicLoc(ref string, t types.Type) *Loc {
	var vt types.Type = types.Typ[types.Int]
	switch namedKey(t) {
	case "atomic.Uint32":
		vt = types.Typ[types.Uint32]
	case "atomic.Bool":
		vt = types.Typ[types.Bool]
	case "atomic.Int64":
		vt = types.Typ[types.Int64]
	case "atomic.Int32":
		vt = types.Typ[types.Int32]
	case "atomic.Uint64":
		vt = types.Typ[types.Uint64]
	case "atomic.Pointer":
		vt = types.Typ[types.UnsafePointer]
	}
	return &Loc{Key: "A:" + namedKey(t), Typ: vt, Ref: ref}
}

// ---------------- arithmetic ----------------

func (e *Exec) binop(st *State, x *ssa.BinOp) Val {
	a, b := e.val(st, x.X), e.val(st, x.Y)
	t := x.X.Type()
	res := Val{Typ: x.Type()}
	switch x.Op {
	case token.EQL, token.NEQ:
		eq := e.valEq(st, a, b, t)
		if x.Op == token.NEQ {
			eq = tNot(eq)
		}
		res.T = []string{eq}
		return res
	}
	if isIntType(t) && len(a.T) == 1 && len(b.T) == 1 {
		w := bvWidth(shape(t)[0].Sort)
		un := isUnsigned(t)
		p, q := a.T[0], b.T[0]
		pick := func(s, u string) string {
			if un {
				return u
			}
			return s
		}
		switch x.Op {
		case token.ADD:
			res.T = []string{app("bvadd", p, q)}
		case token.SUB:
			res.T = []string{app("bvsub", p, q)}
		case token.MUL:
			res.T = []string{app("bvmul", p, q)}
		case token.QUO:
			e.nopanic(st, "divzero", x, tNot(tEq(q, bvLitI(0, w))))
			res.T = []string{app(pick("bvsdiv", "bvudiv"), p, q)}
		case token.REM:
			e.nopanic(st, "divzero", x, tNot(tEq(q, bvLitI(0, w))))
			res.T = []string{app(pick("bvsrem", "bvurem"), p, q)}
		case token.AND:
			res.T = []string{app("bvand", p, q)}
		case token.OR:
			res.T = []string{app("bvor", p, q)}
		case token.XOR:
			res.T = []string{app("bvxor", p, q)}
		case token.AND_NOT:
			res.T = []string{app("bvand", p, app("bvnot", q))}
		case token.SHL, token.SHR:
			// shift count has its own type/width; normalise to w
			qw := bvWidth(shape(x.Y.Type())[0].Sort)
			q2 := q
			if qw < w {
				q2 = app(fmt.Sprintf("(_ zero_extend %d)", w-qw), q)
			} else if qw > w {
				big := app("bvuge", q, bvLitI(int64(w), qw))
				q2 = tIte(big, bvLitI(int64(w), w), app(fmt.Sprintf("(_ extract %d 0)", w-1), q))
			}
			if x.Op == token.SHL {
				res.T = []string{app("bvshl", p, q2)}
			} else {
				res.T = []string{app(pick("bvashr", "bvlshr"), p, q2)}
			}
		case token.LSS:
			res.T = []string{app(pick("bvslt", "bvult"), p, q)}
		case token.LEQ:
			res.T = []string{app(pick("bvsle", "bvule"), p, q)}
		case token.GTR:
			res.T = []string{app(pick("bvsgt", "bvugt"), p, q)}
		case token.GEQ:
			res.T = []string{app(pick("bvsge", "bvuge"), p, q)}
		default:
			st.note("unmodelled integer operator %s", x.Op)
			return e.freshVal("op", x.Type())
		}
		return res
	}
	if b, ok := t.Underlying().(*types.Basic); ok && b.Info()&types.IsBoolean != 0 {
		switch x.Op {
		case token.LAND, token.AND:
			return Val{T: []string{tAnd(a.T[0], b2s(a, 0), "true")}, Typ: x.Type()}
		}
	}
	if isStringType(t) && x.Op == token.ADD {
		// concatenation: abstract
		cf := e.fun("s_cat", []string{SInt, SInt}, SInt)
		r := app(cf, a.T[0], b.T[0])
		st.assume(tEq(e.strLen(r), app("bvadd", e.strLen(a.T[0]), e.strLen(b.T[0]))))
		return Val{T: []string{r}, Typ: x.Type()}
	}
	st.note("unmodelled binary operator %s on %s", x.Op, t)
	return e.freshVal("op", x.Type())
}

func b2s(v Val, i int) string { return v.T[i] }

// valEq is Go's == on two values of static type t.
func (e *Exec) valEq(st *State, a, b Val, t types.Type) string {
	if len(a.T) != len(b.T) {
		// nil constants of interface/slice type have matching shapes already; anything else is a bug
		st.note("comparison with mismatched shapes (%d vs %d) on %s", len(a.T), len(b.T), t)
		return e.fresh("cmp", SBool)
	}
	switch under(t).(type) {
	case *types.Slice:
		// only comparison with nil is legal: nil slice has base 0
		return tEq(a.T[0], b.T[0])
	case *types.Interface:
		// comparison with the nil interface: the type tag decides
		if len(a.T) == 2 && b.T[0] == "0" && b.T[1] == "0" {
			return tEq(a.T[0], "0")
		}
		if len(a.T) == 2 && a.T[0] == "0" && a.T[1] == "0" {
			return tEq(b.T[0], "0")
		}
	}
	var cs []string
	for i := range a.T {
		cs = append(cs, tEq(a.T[i], b.T[i]))
	}
	return tAnd(cs...)
}

func (e *Exec) convert(st *State, x *ssa.Convert) Val {
	v := e.val(st, x.X)
	from, to := x.X.Type(), x.Type()
	if isIntType(from) && isIntType(to) {
		fw, tw := bvWidth(shape(from)[0].Sort), bvWidth(shape(to)[0].Sort)
		return Val{T: []string{resize(v.T[0], fw, tw, !isUnsigned(from))}, Typ: to}
	}
	if isStringType(from) && isStringType(to) {
		return Val{T: v.T, Typ: to}
	}
	st.note("unmodelled conversion %s -> %s", from, to)
	return e.freshVal("conv", to)
}

func resize(t string, fw, tw int, signed bool) string {
	switch {
	case fw == tw:
		return t
	case fw > tw:
		return app(fmt.Sprintf("(_ extract %d 0)", tw-1), t)
	case signed:
		return app(fmt.Sprintf("(_ sign_extend %d)", tw-fw), t)
	default:
		return app(fmt.Sprintf("(_ zero_extend %d)", tw-fw), t)
	}
}

func (e *Exec) unop(st *State, x *ssa.UnOp, b *ssa.BasicBlock, idx int) bool {
	fr := st.top()
	switch x.Op {
	case token.NOT:
		fr.env[x] = Val{T: []string{tNot(e.val(st, x.X).T[0])}, Typ: x.Type()}
	case token.SUB:
		v := e.val(st, x.X)
		if isIntType(x.Type()) {
			fr.env[x] = Val{T: []string{app("bvneg", v.T[0])}, Typ: x.Type()}
		} else {
			fr.env[x] = e.freshVal("neg", x.Type())
		}
	case token.XOR:
		fr.env[x] = Val{T: []string{app("bvnot", e.val(st, x.X).T[0])}, Typ: x.Type()}
	case token.MUL: // load
		addr := e.val(st, x.X)
		pt := x.X.Type().Underlying().(*types.Pointer).Elem()
		if addr.Loc == nil && addr.Sub == nil {
			e.nopanic(st, "nilderef", x, tNot(tEq(addr.T[0], "0")))
		}
		if isStruct(pt) {
			// loading a whole struct by value: read each leaf from its field arrays
			fr.env[x] = e.loadStruct(st, addr, pt)
			return false
		}
		loc := e.derefLoc(st, addr, pt)
		e.checkAccess(st, loc, false, x)
		v := e.loadFrom(st, loc, false)
		if g, ok := x.X.(*ssa.Global); ok {
			v = e.globalValue(st, g, v)
		}
		if !e.isFresh(st, loc.Ref) {
			e.assumeTypeWF(st, v, pt)
		}
		fr.env[x] = v
	case token.ARROW:
		return e.chanRecv(st, x, b, idx)
	default:
		st.note("unmodelled unary operator %s", x.Op)
		fr.env[x] = e.freshVal("un", x.Type())
	}
	return false
}

// storeStruct writes a struct value field by field into the field arrays of the object at ref.
func (e *Exec) storeStruct(st *State, ref string, t types.Type, v Val) {
	su := t.Underlying().(*types.Struct)
	owner := namedKey(t)
	off := 0
	for i := 0; i < su.NumFields(); i++ {
		f := su.Field(i)
		n := len(shape(f.Type()))
		if off+n > len(v.T) {
			st.note("struct store shape mismatch for %s", owner)
			return
		}
		fv := Val{T: v.T[off : off+n], Typ: f.Type()}
		off += n
		if isStruct(f.Type()) {
			fn := e.fun(sym("sub."+owner+"."+f.Name()), []string{SInt}, SInt)
			if !isOpaqueStruct(f.Type()) {
				e.storeStruct(st, app(fn, ref), f.Type(), fv)
			}
			continue
		}
		e.storeTo(st, &Loc{Key: fieldKey(owner, f.Name()), Typ: f.Type(), Ref: ref, Owner: owner, Field: f.Name()}, fv)
	}
}

func (e *Exec) loadStruct(st *State, addr Val, t types.Type) Val {
	su := t.Underlying().(*types.Struct)
	owner := namedKey(t)
	out := Val{Typ: t}
	for i := 0; i < su.NumFields(); i++ {
		f := su.Field(i)
		if isStruct(f.Type()) {
			fn := e.fun(sym("sub."+owner+"."+f.Name()), []string{SInt}, SInt)
			sv := e.loadStruct(st, Val{T: []string{app(fn, addr.T[0])}}, f.Type())
			out.T = append(out.T, sv.T...)
			continue
		}
		var loc *Loc
		if addr.Loc != nil {
			loc = &Loc{Key: subKey(addr.Loc.Key, f.Name()), Typ: f.Type(), Ref: addr.Loc.Ref, Idx: addr.Loc.Idx}
		} else {
			loc = &Loc{Key: fieldKey(owner, f.Name()), Typ: f.Type(), Ref: addr.T[0], Owner: owner, Field: f.Name()}
		}
		out.T = append(out.T, e.loadFrom(st, loc, false).T...)
	}
	return out
}

// globalValue gives well-known immutable globals a fixed identity.
func (e *Exec) globalValue(st *State, g *ssa.Global, v Val) Val {
	name := g.Name()
	if g.Pkg != nil && g.Pkg.Pkg.Path() != pkgPath {
		name = g.Pkg.Pkg.Name() + "." + name
	}
	switch name {
	case "io.EOF", "context.Canceled", "context.DeadlineExceeded", "io.ErrUnexpectedEOF":
		return e.errGlobal(name, v.Typ)
	}
	if name == "errFlowControlWindowExceeded" {
		return e.errGlobal(name, v.Typ)
	}
	return v
}

func (e *Exec) errGlobal(name string, t types.Type) Val {
	tag := e.declare(sym("errtag:"+name), SInt)
	val := e.declare(sym("errval:"+name), SInt)
	ax := func(s string) {
		for _, a := range e.axioms {
			if a == s {
				return
			}
		}
		e.axioms = append(e.axioms, s)
	}
	ax(app(">", tag, "0"))
	ax(app(">", val, "0"))
	ax(app("<", val, "BASE"))
	for _, other := range []string{"io.EOF", "context.Canceled", "context.DeadlineExceeded", "io.ErrUnexpectedEOF", "errFlowControlWindowExceeded"} {
		if other != name {
			if _, ok := e.decls[sym("errval:"+other)]; ok {
				ax(tNot(tEq(val, sym("errval:"+other))))
			}
		}
	}
	// status knowledge of well-known errors
	switch name {
	case "errFlowControlWindowExceeded":
		ax(tEq(app(e.errCodeFn(), tag, val), bvLitI(8, 32)))
		ax(app(e.isStatusFn(), tag, val))
	case "io.EOF", "context.Canceled", "context.DeadlineExceeded":
		ax(tNot(app(e.isStatusFn(), tag, val)))
	}
	return Val{T: []string{tag, val}, Typ: t}
}

func (e *Exec) errCodeFn() string  { return e.fun("err_code", []string{SInt, SInt}, SBV(32)) }
func (e *Exec) isStatusFn() string { return e.fun("err_is_status", []string{SInt, SInt}, SBool) }

// ---------------- interfaces ----------------

func (e *Exec) makeInterface(st *State, x *ssa.MakeInterface) Val {
	v := e.val(st, x.X)
	ct := x.X.Type()
	tag := e.typeID(ct)
	var payload string
	if len(v.T) == 1 && shape(ct)[0].Sort == SInt {
		payload = v.T[0]
	} else {
		// box non-reference values; boxes of equal contents are equal
		ls := shape(ct)
		var sorts []string
		for _, l := range ls {
			sorts = append(sorts, l.Sort)
		}
		if len(ls) == 0 {
			// zero-size values (struct{} keys): one box per type
			payload = e.declare(sym("box0:"+typeKey(ct)), SInt)
			return Val{T: []string{tag, payload}, Typ: x.Type()}
		}
		bf := e.fun(sym("box:"+typeKey(ct)), sorts, SInt)
		payload = app(bf, v.T...)
		for i, l := range ls {
			uf := e.fun(sym(fmt.Sprintf("unbox:%s:%d", typeKey(ct), i)), []string{SInt}, l.Sort)
			st.assume(tEq(app(uf, payload), v.T[i]))
		}
	}
	out := Val{T: []string{tag, payload}, Typ: x.Type(), Clo: v.Clo}
	return out
}

func (e *Exec) unbox(st *State, payload string, ct types.Type) Val {
	ls := shape(ct)
	if len(ls) == 1 && ls[0].Sort == SInt {
		return Val{T: []string{payload}, Typ: ct}
	}
	out := Val{Typ: ct}
	for i, l := range ls {
		uf := e.fun(sym(fmt.Sprintf("unbox:%s:%d", typeKey(ct), i)), []string{SInt}, l.Sort)
		out.T = append(out.T, app(uf, payload))
	}
	return out
}

func (e *Exec) implFn(iface types.Type) string {
	return e.fun(sym("impl:"+typeKey(iface)), []string{SInt}, SBool)
}

func (e *Exec) typeAssert(st *State, x *ssa.TypeAssert) {
	fr := st.top()
	v := e.val(st, x.X)
	if len(v.T) != 2 {
		// asserting from a type parameter or opaque value
		st.note("type assertion on non-interface shape: havoc")
		fr.env[x] = e.freshVal("ta", x.Type())
		return
	}
	tag, payload := v.T[0], v.T[1]
	at := x.AssertedType
	var ok string
	var res Val
	if types.IsInterface(at) && !isTypeParam(at) {
		ok = tAnd(tNot(tEq(tag, "0")), app(e.implFn(at), tag))
		if e.staticImplements(x.X.Type(), at) {
			ok = tNot(tEq(tag, "0"))
		}
		res = Val{T: []string{tag, payload}, Typ: at}
	} else if isTypeParam(at) {
		// opaque element type: homogeneous containers hand back what was put in
		ok = tEq(tag, e.typeID(at))
		if v.Prov == "listelem" {
			ok = "true"
		}
		res = Val{T: []string{payload}, Typ: at}
	} else {
		ok = tEq(tag, e.typeID(at))
		res = e.unbox(st, payload, at)
	}
	if x.CommaOk {
		// result is (value-or-zero, ok)
		z := e.zeroVal(at)
		out := Val{Typ: x.Type()}
		for i := range res.T {
			out.T = append(out.T, tIte(ok, res.T[i], z.T[i]))
		}
		out.T = append(out.T, ok)
		fr.env[x] = out
		return
	}
	e.nopanic(st, "typeassert", x, ok)
	fr.env[x] = res
}

func isTypeParam(t types.Type) bool {
	_, ok := t.(*types.TypeParam)
	return ok
}

func (e *Exec) staticImplements(from, to types.Type) bool {
	fi, ok1 := from.Underlying().(*types.Interface)
	ti, ok2 := to.Underlying().(*types.Interface)
	if !ok1 || !ok2 {
		return false
	}
	return types.Implements(from, ti) && fi != nil
}

// ---------------- slices, strings, maps ----------------

func (e *Exec) elemLoc(base, idx string, et types.Type) *Loc {
	return &Loc{Key: elemKey(et), Typ: et, Ref: base, Idx: idx}
}

func (e *Exec) indexAddr(st *State, x *ssa.IndexAddr) {
	fr := st.top()
	bv := e.val(st, x.X)
	iv := e.val(st, x.Index)
	i64 := resize(iv.T[0], bvWidth(shape(x.Index.Type())[0].Sort), 64, !isUnsigned(x.Index.Type()))
	switch t := under(x.X.Type()).(type) {
	case *types.Slice:
		e.nopanic(st, "index", x, tAnd(app("bvsge", i64, bvLitI(0, 64)), app("bvslt", i64, bv.T[2])))
		loc := e.elemLoc(bv.T[0], app("bvadd", bv.T[1], i64), t.Elem())
		ea := e.fresh("eaddr", SInt)
		st.assume(app(">", ea, "0"))
		fr.env[x] = Val{T: []string{ea}, Typ: x.Type(), Loc: loc}
	case *types.Pointer: // pointer to array
		at := t.Elem().Underlying().(*types.Array)
		e.nopanic(st, "index", x, tAnd(app("bvsge", i64, bvLitI(0, 64)), app("bvslt", i64, bvLitI(at.Len(), 64))))
		loc := e.elemLoc(bv.T[0], i64, at.Elem())
		fr.env[x] = Val{T: []string{e.fresh("eaddr", SInt)}, Typ: x.Type(), Loc: loc}
	default:
		st.note("unmodelled IndexAddr on %s", x.X.Type())
		fr.env[x] = e.freshVal("eaddr", x.Type())
	}
}

func (e *Exec) index(st *State, x *ssa.Index) {
	fr := st.top()
	bv := e.val(st, x.X)
	iv := e.val(st, x.Index)
	i64 := resize(iv.T[0], bvWidth(shape(x.Index.Type())[0].Sort), 64, !isUnsigned(x.Index.Type()))
	if isStringType(x.X.Type()) {
		e.nopanic(st, "index", x, tAnd(app("bvsge", i64, bvLitI(0, 64)), app("bvslt", i64, e.strLen(bv.T[0]))))
		fr.env[x] = Val{T: []string{e.strAt(bv.T[0], i64)}, Typ: x.Type()}
		return
	}
	st.note("unmodelled Index on %s", x.X.Type())
	fr.env[x] = e.freshVal("idx", x.Type())
}

func (e *Exec) slice(st *State, x *ssa.Slice) {
	fr := st.top()
	bv := e.val(st, x.X)
	to64 := func(v ssa.Value) string {
		iv := e.val(st, v)
		return resize(iv.T[0], bvWidth(shape(v.Type())[0].Sort), 64, !isUnsigned(v.Type()))
	}
	zero := bvLitI(0, 64)
	switch t := under(x.X.Type()).(type) {
	case *types.Basic: // string
		ln := e.strLen(bv.T[0])
		lo, hi := zero, ln
		if x.Low != nil {
			lo = to64(x.Low)
		}
		if x.High != nil {
			hi = to64(x.High)
		}
		e.nopanic(st, "slice", x, tAnd(app("bvsle", zero, lo), app("bvsle", lo, hi), app("bvsle", hi, ln)))
		fr.env[x] = Val{T: []string{e.strSub(bv.T[0], lo, hi)}, Typ: x.Type()}
	case *types.Slice:
		lo, hi, mx := zero, bv.T[2], bv.T[3]
		if x.Low != nil {
			lo = to64(x.Low)
		}
		if x.High != nil {
			hi = to64(x.High)
		}
		if x.Max != nil {
			mx = to64(x.Max)
			e.nopanic(st, "slice", x, tAnd(app("bvsle", zero, lo), app("bvsle", lo, hi), app("bvsle", hi, mx), app("bvsle", mx, bv.T[3])))
		} else {
			e.nopanic(st, "slice", x, tAnd(app("bvsle", zero, lo), app("bvsle", lo, hi), app("bvsle", hi, bv.T[3])))
		}
		fr.env[x] = Val{T: []string{bv.T[0], app("bvadd", bv.T[1], lo), app("bvsub", hi, lo), app("bvsub", mx, lo)}, Typ: x.Type()}
	case *types.Pointer: // slicing a pointer to array
		at := t.Elem().Underlying().(*types.Array)
		n := bvLitI(at.Len(), 64)
		lo, hi := zero, n
		if x.Low != nil {
			lo = to64(x.Low)
		}
		if x.High != nil {
			hi = to64(x.High)
		}
		e.nopanic(st, "slice", x, tAnd(app("bvsle", zero, lo), app("bvsle", lo, hi), app("bvsle", hi, n)))
		fr.env[x] = Val{T: []string{bv.T[0], lo, app("bvsub", hi, lo), app("bvsub", n, lo)}, Typ: x.Type()}
	default:
		st.note("unmodelled Slice on %s", x.X.Type())
		fr.env[x] = e.freshVal("slice", x.Type())
	}
}

func (e *Exec) makeSlice(st *State, x *ssa.MakeSlice) {
	fr := st.top()
	ln := e.val(st, x.Len)
	cp := e.val(st, x.Cap)
	l64 := resize(ln.T[0], bvWidth(shape(x.Len.Type())[0].Sort), 64, true)
	c64 := resize(cp.T[0], bvWidth(shape(x.Cap.Type())[0].Sort), 64, true)
	e.nopanic(st, "makeslice", x, tAnd(app("bvsle", bvLitI(0, 64), l64), app("bvsle", l64, c64)))
	r := e.allocRef(st, "slice")
	fr.env[x] = Val{T: []string{r, bvLitI(0, 64), l64, c64}, Typ: x.Type()}
}

// map representation: M:<type>#present : Int -> K -> Bool, M:<type>#val[#leaf] : Int -> K -> S
func (e *Exec) mapKeySort(mt *types.Map) string {
	ls := shape(mt.Key())
	if len(ls) == 1 {
		return ls[0].Sort
	}
	return SInt // composite keys (interfaces) are mapped through key_id
}

func (e *Exec) mapKeyTerm(mt *types.Map, k Val) string {
	if len(k.T) == 1 {
		return k.T[0]
	}
	var sorts []string
	for _, l := range shape(mt.Key()) {
		sorts = append(sorts, l.Sort)
	}
	return app(e.fun(sym("key_id:"+typeKey(mt.Key())), sorts, SInt), k.T...)
}

func mapKeyName(mt types.Type) string { return "M:" + typeKey(mt) }

func (e *Exec) mapPresent(st *State, mt *types.Map, m, k string, old bool) string {
	key := mapKeyName(mt) + "#present"
	s := arr(SInt, arr(e.mapKeySort(mt), SBool))
	a := e.curArr(st, key, s)
	if old {
		a = e.oldArr(st, key, s)
	}
	return app("select", app("select", a, m), k)
}

func (e *Exec) mapValue(st *State, mt *types.Map, m, k string, old bool) Val {
	out := Val{Typ: mt.Elem()}
	for _, l := range shape(mt.Elem()) {
		key := leafKey(mapKeyName(mt)+"#val", l)
		s := arr(SInt, arr(e.mapKeySort(mt), l.Sort))
		a := e.curArr(st, key, s)
		if old {
			a = e.oldArr(st, key, s)
		}
		out.T = append(out.T, app("select", app("select", a, m), k))
	}
	return out
}

func (e *Exec) initMap(st *State, r string, t types.Type) {
	mt := t.Underlying().(*types.Map)
	key := mapKeyName(mt) + "#present"
	s := arr(SInt, arr(e.mapKeySort(mt), SBool))
	a := e.curArr(st, key, s)
	empty := fmt.Sprintf("((as const %s) false)", arr(e.mapKeySort(mt), SBool))
	e.setArr(st, key, s, app("store", a, r, empty))
	st.assume(tEq(app(e.mapLenFn(), r, intLit(int64(st.counts["mapgen"]))), bvLitI(0, 64)))
}

func (e *Exec) mapLenFn() string { return e.fun("map_len", []string{SInt, SInt}, SBV(64)) }

func (e *Exec) lookup(st *State, x *ssa.Lookup) {
	fr := st.top()
	mv := e.val(st, x.X)
	kv := e.val(st, x.Index)
	mt, ok := x.X.Type().Underlying().(*types.Map)
	if !ok {
		// string indexing via Lookup does not occur in go/ssa (Index is used)
		st.note("unmodelled Lookup on %s", x.X.Type())
		fr.env[x] = e.freshVal("lookup", x.Type())
		return
	}
	e.checkMapAccess(st, x.X, false, x)
	k := e.mapKeyTerm(mt, kv)
	present := tAnd(tNot(tEq(mv.T[0], "0")), e.mapPresent(st, mt, mv.T[0], k, false))
	val := e.mapValue(st, mt, mv.T[0], k, false)
	e.protoMapWF(st, mt, present, val)
	e.assumeTypeWF(st, val, mt.Elem())
	z := e.zeroVal(mt.Elem())
	out := Val{Typ: x.Type()}
	for i := range val.T {
		out.T = append(out.T, tIte(present, val.T[i], z.T[i]))
	}
	if x.CommaOk {
		out.T = append(out.T, present)
	}
	fr.env[x] = out
}

func (e *Exec) mapUpdate(st *State, x *ssa.MapUpdate) {
	mv := e.val(st, x.Map)
	kv := e.val(st, x.Key)
	vv := e.val(st, x.Value)
	mt := x.Map.Type().Underlying().(*types.Map)
	e.nopanic(st, "nilmap", x, tNot(tEq(mv.T[0], "0")))
	e.checkMapAccess(st, x.Map, true, x)
	e.mapStore(st, mt, mv.T[0], e.mapKeyTerm(mt, kv), vv, true)
	e.escapeVal(st, vv)
}

func (e *Exec) mapStore(st *State, mt *types.Map, m, k string, v Val, present bool) {
	key := mapKeyName(mt) + "#present"
	s := arr(SInt, arr(e.mapKeySort(mt), SBool))
	a := e.curArr(st, key, s)
	st.wrote(key, m)
	pv := "true"
	if !present {
		pv = "false"
	}
	e.setArr(st, key, s, app("store", a, m, app("store", app("select", a, m), k, pv)))
	if present {
		for i, l := range shape(mt.Elem()) {
			vk := leafKey(mapKeyName(mt)+"#val", l)
			vs := arr(SInt, arr(e.mapKeySort(mt), l.Sort))
			va := e.curArr(st, vk, vs)
			e.setArr(st, vk, vs, app("store", va, m, app("store", app("select", va, m), k, v.T[i])))
		}
	}
	st.counts["mapgen"]++
}

type ghostSet struct{ types.Type }

func ghostSetT(mt *types.Map) types.Type {
	return types.NewNamed(types.NewTypeName(0, nil, "ghostset", nil), types.NewMap(mt.Key(), types.Typ[types.Bool]), nil)
}

// protoMapWF: values of protobuf map fields are non-nil messages (the protobuf
// runtime allocates them when unmarshalling; listed as an assumption).
func (e *Exec) protoMapWF(st *State, mt *types.Map, present string, v Val) {
	pt, ok := mt.Elem().Underlying().(*types.Pointer)
	if !ok || len(v.T) != 1 {
		return
	}
	if n, ok := pt.Elem().(*types.Named); ok && n.Obj().Pkg() != nil && n.Obj().Pkg().Name() == "tunnelpb" {
		st.assume(tImp(present, tNot(tEq(v.T[0], "0"))))
	}
}

// range/next over maps and strings: arbitrary enumeration
func (e *Exec) next(st *State, x *ssa.Next) {
	fr := st.top()
	rng, _ := x.Iter.(*ssa.Range)
	out := Val{Typ: x.Type()}
	ok := e.fresh("next.ok", SBool)
	out.T = append(out.T, ok)
	if rng != nil {
		if mt, isMap := rng.X.Type().Underlying().(*types.Map); isMap {
			m := e.val(st, rng.X).T[0]
			kv := e.freshVal("next.k", mt.Key())
			k := e.mapKeyTerm(mt, kv)
			st.assume(tImp(ok, tAnd(tNot(tEq(m, "0")), e.mapPresent(st, mt, m, k, false))))
			if vis, has := st.ghost["$visited"]; has {
				// each key is yielded once; the iteration ends only when every key has been yielded
				st.assume(tImp(ok, tNot(app("select", vis.T[0], k))))
				q := e.freshName("q:k")
				st.assume(tImp(tNot(ok), fmt.Sprintf("(forall ((%s %s)) (! (=> %s (select %s %s)) :pattern ((select %s %s))))", q, e.mapKeySort(mt),
					tAnd(tNot(tEq(m, "0")), e.mapPresent(st, mt, m, q, false)), vis.T[0], q, vis.T[0], q)))
				nv := e.fresh("visited", arr(e.mapKeySort(mt), SBool))
				st.assume(tEq(nv, tIte(ok, app("store", vis.T[0], k, "true"), vis.T[0])))
				st.ghost["$visited"] = Val{T: []string{nv}, Typ: vis.Typ}
			}
			vv := e.mapValue(st, mt, m, k, false)
			e.protoMapWF(st, mt, ok, vv)
			vv.Typ = mt.Elem()
			e.assumeTypeWF(st, vv, mt.Elem())
			tt := x.Type().(*types.Tuple)
			// tuple is (ok, k, v); k or v may be typed invalid when unused
			if len(shape(tt.At(1).Type())) == len(kv.T) {
				out.T = append(out.T, kv.T...)
			} else {
				for _, l := range shape(tt.At(1).Type()) {
					out.T = append(out.T, zeroOf(l.Sort))
				}
			}
			if len(shape(tt.At(2).Type())) == len(vv.T) {
				out.T = append(out.T, vv.T...)
			} else {
				for _, l := range shape(tt.At(2).Type()) {
					out.T = append(out.T, zeroOf(l.Sort))
				}
			}
			fr.env[x] = out
			return
		}
	}
	st.note("unmodelled range/next over %v", x.Iter.Type())
	fr.env[x] = e.freshVal("next", x.Type())
}
