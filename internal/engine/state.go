package engine

import (
	"fmt"
	"go/token"
	"go/types"
	"sort"
	"strings"

	"golang.org/x/tools/go/ssa"
)

// Val is a symbolic Go value: its SMT leaves plus Go-side provenance.
type Val struct {
	T    []string // leaf terms, in shape() order
	Loc  *Loc     // non-nil: this pointer value is the address of a tracked location
	Clo  *Closure // non-nil: this func value is a known closure
	Prov string   // func value loaded from this funcfield ("(*T).f")
	Sub  *SubObj  // pointer to an embedded-by-value struct field (mutex, atomic, ...)
	Typ  types.Type
}

type SubObj struct {
	Owner string // owning struct type key
	Path  string // field path inside the owner
	Obj   string // ref term of the owner object
}

type Loc struct {
	Key   string     // heap key (without leaf suffix)
	Typ   types.Type // pointee type
	Ref   string     // object / base ref (Int)
	Idx   string     // element index (BV64) for element locations
	Owner string     // struct type key for field locations
	Field string     // field name for field locations
	Local bool       // function-local cell (Alloc)
	WriteOnce bool   // local cell written once and never by a capturing closure
}

type Closure struct {
	Fn       *ssa.Function
	Bindings []Val
}

type HeldLock struct {
	Term  string // lock object ref term
	Owner string
	Field string
	Obj   string
	Read  bool
}

type heapWrite struct {
	key, ref string
}

func (st *State) wrote(key, ref string) {
	if st.quiet > 0 {
		return // havoc that models interference or a loop cut, not a write of this function
	}
	for _, w := range st.writes {
		if w.key == key && w.ref == ref {
			return
		}
	}
	st.writes = append(st.writes, heapWrite{key, ref})
}

type localCell struct {
	key string // leaf key
	ref string
	sort string
}

type deferred struct {
	call  *ssa.CallCommon
	fn    Val
	args  []Val
	instr ssa.Instruction
}

type callRecord struct {
	Args    []Val
	Results Val
}

// Frame is one activation (the function under verification or an inlined callee).
type Frame struct {
	fn      *ssa.Function
	env     map[ssa.Value]Val
	vars    map[string]Val // current value of source-level variables (from DebugRef / phi comments)
	varAddr map[string]*Loc
	defers  []deferred
	params  map[string]Val
	freeV   map[string]Val
	results Val
	hasRes  bool
	inlined bool
	callSiteRet func(st *State, res Val) // continuation for inlined frames
	ordinals map[ssa.Instruction]anchorID
	loopOrd  map[*ssa.BasicBlock]int
	entered  map[*ssa.BasicBlock]bool // loop headers already cut on this path
	// lazy: variables whose defining DebugRef carried the zero placeholder
	// go/ssa emits before the right-hand side is built; bound to the single
	// SSA value every other reference to the variable names, once computed.
	lazy map[string]ssa.Value
}

type anchorID struct {
	kind   string
	target string
	ord    int
}

// State is one symbolic path state.
type State struct {
	assumes []string
	heap    map[string]string // key#leaf -> current array term
	old     map[string]string // key#leaf -> array term at "old" time (entry / lock acquisition)
	impure  map[string]bool   // key#leaf havoc'd by a call/lock
	held    []HeldLock
	everHeld map[string]bool
	ghost   map[string]Val
	frames  []*Frame
	fresh   []string // refs allocated on this path
	subFresh int     // how many entries of fresh are sub-object terms (not numbered)
	locals  []localCell // function-local cells (Alloc) that have not escaped
	writes  []heapWrite   // heap writes on this path (for the frame check)
	quiet   int
	seen    map[string]bool
	cells   map[string]Val // ref -> current value of a non-escaped local cell
	snaps   map[string]map[string]string // lock term -> heap at its latest acquisition
	calls   map[string]callRecord
	counts  map[string]int // event counters (sends, spawns, ...)
	notes   []string       // abstraction notes on this path
	front   map[string][2]string // list element term -> (list ref, lo) it is the front of
	dead    bool
	path    []string
	casWon  map[string]bool // atomic pointer object -> CAS(nil,x) succeeded on this path
	events  []string
}

func (st *State) clone() *State {
	n := &State{
		assumes: append([]string(nil), st.assumes...),
		heap:    make(map[string]string, len(st.heap)),
		old:     make(map[string]string, len(st.old)),
		impure:  make(map[string]bool, len(st.impure)),
		held:    append([]HeldLock(nil), st.held...),
		everHeld: make(map[string]bool, len(st.everHeld)),
		ghost:   make(map[string]Val, len(st.ghost)),
		fresh:   append([]string(nil), st.fresh...),
		subFresh: st.subFresh,
		locals:  append([]localCell(nil), st.locals...),
		writes:  append([]heapWrite(nil), st.writes...),
		cells:   make(map[string]Val, len(st.cells)),
		snaps:   make(map[string]map[string]string, len(st.snaps)),
		calls:   make(map[string]callRecord, len(st.calls)),
		counts:  make(map[string]int, len(st.counts)),
		notes:   append([]string(nil), st.notes...),
		front:   make(map[string][2]string, len(st.front)),
		path:    append([]string(nil), st.path...),
		casWon:  make(map[string]bool, len(st.casWon)),
		events:  append([]string(nil), st.events...),
	}
	for k, v := range st.heap {
		n.heap[k] = v
	}
	for k, v := range st.old {
		n.old[k] = v
	}
	for k, v := range st.impure {
		n.impure[k] = v
	}
	for k, v := range st.everHeld {
		n.everHeld[k] = v
	}
	for k, v := range st.ghost {
		n.ghost[k] = v
	}
	for k, v := range st.calls {
		n.calls[k] = v
	}
	for k, v := range st.counts {
		n.counts[k] = v
	}
	for k, v := range st.front {
		n.front[k] = v
	}
	for k, v := range st.casWon {
		n.casWon[k] = v
	}
	for k, v := range st.cells {
		n.cells[k] = v
	}
	if st.seen != nil {
		n.seen = make(map[string]bool, len(st.seen))
		for k, v := range st.seen {
			n.seen[k] = v
		}
	}
	for k, v := range st.snaps {
		n.snaps[k] = v // snapshots are immutable once taken
	}
	for _, f := range st.frames {
		n.frames = append(n.frames, f.clone())
	}
	return n
}

func (f *Frame) clone() *Frame {
	n := *f
	n.env = make(map[ssa.Value]Val, len(f.env))
	for k, v := range f.env {
		n.env[k] = v
	}
	n.vars = make(map[string]Val, len(f.vars))
	for k, v := range f.vars {
		n.vars[k] = v
	}
	n.varAddr = make(map[string]*Loc, len(f.varAddr))
	for k, v := range f.varAddr {
		n.varAddr[k] = v
	}
	if len(f.lazy) > 0 {
		n.lazy = make(map[string]ssa.Value, len(f.lazy))
		for k, v := range f.lazy {
			n.lazy[k] = v
		}
	}
	n.defers = append([]deferred(nil), f.defers...)
	n.entered = make(map[*ssa.BasicBlock]bool, len(f.entered))
	for k, v := range f.entered {
		n.entered[k] = v
	}
	return &n
}

func (st *State) top() *Frame { return st.frames[len(st.frames)-1] }

func (st *State) assume(t string) {
	if t == "true" {
		return
	}
	st.assumes = append(st.assumes, t)
}

func (st *State) assumeOnce(t string) {
	if st.seen == nil {
		st.seen = map[string]bool{}
	}
	if st.seen[t] {
		return
	}
	st.seen[t] = true
	st.assume(t)
}

func (st *State) note(format string, args ...any) {
	s := fmt.Sprintf(format, args...)
	for _, n := range st.notes {
		if n == s {
			return
		}
	}
	st.notes = append(st.notes, s)
}

func (st *State) holds(term string) *HeldLock {
	for i := range st.held {
		if st.held[i].Term == term {
			return &st.held[i]
		}
	}
	return nil
}

// Obligation instance: one path's proof goal.
type Instance struct {
	Name    string
	Kind    string
	Func    string
	Pos     token.Position
	Props   []string
	Clause  string
	Assumes []string
	Goal    string
	Notes   []string
	Path    []string
	Cover   bool // satisfiability (reachability) probe rather than validity goal
	Witness map[string][]string // replay witnesses: name -> SMT terms (one per leaf), evaluated in the old state
}

func sortedKeys[V any](m map[string]V) []string {
	ks := make([]string, 0, len(m))
	for k := range m {
		ks = append(ks, k)
	}
	sort.Strings(ks)
	return ks
}

func joinNonEmpty(sep string, xs ...string) string {
	var ys []string
	for _, x := range xs {
		if x != "" {
			ys = append(ys, x)
		}
	}
	return strings.Join(ys, sep)
}

// resolveLazy binds pending variable definitions whose value now exists.
func (f *Frame) resolveLazy() {
	for n, v := range f.lazy {
		if val, ok := f.env[v]; ok {
			f.vars[n] = val
			delete(f.varAddr, n)
			delete(f.lazy, n)
		}
	}
}
