package engine

import (
	"fmt"
	"go/token"
	"go/types"
	"os"
	"sort"
	"strings"

	"golang.org/x/tools/go/packages"
	"golang.org/x/tools/go/ssa"
	"golang.org/x/tools/go/ssa/ssautil"
)

const pkgPath = "github.com/jhump/grpctunnel"

// Program is the loaded, type-checked and SSA-built package under verification.
type Program struct {
	Fset  *token.FileSet
	Pkg   *packages.Package
	SSA   *ssa.Program
	SPkg  *ssa.Package
	Funcs map[string]*ssa.Function // contract-style name -> function
}

// Load builds go/ssa for /repo's working tree (build tag verif on).
func Load(dir string) (*Program, error) {
	cfg := &packages.Config{
		Mode:       packages.LoadAllSyntax,
		Dir:        dir,
		BuildFlags: []string{"-tags=verif", "-mod=mod"},
		Env:        append(os.Environ(), "GOFLAGS=-mod=mod", "GOPROXY=off"),
	}
	pkgs, err := packages.Load(cfg, ".")
	if err != nil {
		return nil, err
	}
	if len(pkgs) != 1 {
		return nil, fmt.Errorf("expected 1 package, got %d", len(pkgs))
	}
	if len(pkgs[0].Errors) > 0 {
		var sb strings.Builder
		for _, e := range pkgs[0].Errors {
			sb.WriteString(e.Error() + "\n")
		}
		return nil, fmt.Errorf("package does not type-check:\n%s", sb.String())
	}
	prog, spkgs := ssautil.AllPackages(pkgs, ssa.GlobalDebug|ssa.InstantiateGenerics*0)
	prog.Build()
	p := &Program{Fset: pkgs[0].Fset, Pkg: pkgs[0], SSA: prog, SPkg: spkgs[0], Funcs: map[string]*ssa.Function{}}
	p.index()
	return p, nil
}

func (p *Program) addFunc(f *ssa.Function) {
	if f == nil || f.Blocks == nil {
		return
	}
	name := FuncName(f)
	if _, ok := p.Funcs[name]; ok {
		return
	}
	p.Funcs[name] = f
	for _, an := range f.AnonFuncs {
		p.addFunc(an)
	}
}

func (p *Program) index() {
	for _, m := range p.SPkg.Members {
		switch m := m.(type) {
		case *ssa.Function:
			p.addFunc(m)
		case *ssa.Type:
			nt, ok := m.Type().(*types.Named)
			if !ok {
				continue
			}
			for i := 0; i < nt.NumMethods(); i++ {
				p.addFunc(p.SSA.FuncValue(nt.Method(i)))
			}
		}
	}
}

// FuncName renders a function the way the contract file names it:
// pkg-level "f", method "(*T).m" / "(T).m", closures "parent$n".
func FuncName(f *ssa.Function) string {
	if f.Parent() != nil {
		// go/ssa names closures parent$N already
		return FuncName(f.Parent()) + f.Name()[strings.LastIndex(f.Name(), "$"):]
	}
	if recv := f.Signature.Recv(); recv != nil {
		t := recv.Type()
		ptr := ""
		if pt, ok := t.(*types.Pointer); ok {
			t = pt.Elem()
			ptr = "*"
		}
		tn := "?"
		if nt, ok := t.(*types.Named); ok {
			tn = nt.Obj().Name()
		}
		return "(" + ptr + tn + ")." + f.Name()
	}
	return f.Name()
}

func (p *Program) SortedFuncNames() []string {
	var ns []string
	for n := range p.Funcs {
		ns = append(ns, n)
	}
	sort.Strings(ns)
	return ns
}
