package engine

import (
	"fmt"
	"go/types"
	"strings"

	"golang.org/x/tools/go/ssa"
)

// AssumedContracts documents every dependency model the engine applies.
// Printed into each evidence file (trusted base).
var AssumedContracts = map[string]string{
	"(*sync.Mutex).Lock/Unlock, (*sync.RWMutex).Lock/Unlock/RLock/RUnlock": "mutual exclusion; acquire = havoc guarded fields + assume monitor invariant; release = prove invariant",
	"(*sync.Cond).Wait/Signal/Broadcast":                                   "Wait = release + re-acquire of the monitor (guarded state havoc'd, invariant assumed); Signal/Broadcast set a ghost 'signalled' bit",
	"(*sync.Once).Do":                                                      "runs its argument at most once; body verified as a function of its own",
	"(*sync.WaitGroup).Add/Done/Wait":                                      "ghost counter; Wait blocks",
	"sync/atomic Uint32/Bool/Pointer methods":                              "sequentially consistent read-modify-write on the value cell; other threads may change the cell between two atomic operations (value re-havoc'd unless the contract declares the atomic monotone)",
	"container/list New/PushBack/Front/Remove/Len/Init":                    "abstract FIFO sequence (lo,hi,elems) with ghost sum of measures",
	"context.WithCancel/WithTimeout/WithValue, Context.Done/Err":           "child descends from parent; cancel() sets cancelCalled(cancel); Done() is a signal channel; Err()!=nil iff Done closed",
	"status.Errorf/Error/FromError/FromProto, (*Status).Proto/Err/Code":    "Errorf(c,..) is a status error with code c (non-nil iff c != OK); conversions preserve the code",
	"errors.New, fmt.Errorf":                                               "return a fresh non-nil, non-status error",
	"strconv.ParseUint(s,10,64)":                                           "succeeds iff s is 1..n ASCII digits and fits; result = dec_val(s); for len(s)<=8 dec_val(s) <= 99999999",
	"strconv.Atoi / ParseInt(s,10,64)":                                     "succeeds iff s is an optional sign followed by digits and fits; result = signed value",
	"strings.SplitN(s, sep, 2)":                                            "1 part iff sep does not occur, else 2 parts",
	"context.Cause": "non-nil exactly when the context is done; otherwise an arbitrary error value",
	"maps.Clone": "shallow copy: nil for nil, else a new map with equal keys and identical (shared) values",
	"metadata.MD.Get/Join/Pairs/Copy/Append, From*Context, NewIncomingContext": "multimap operations on abstract metadata values; Append on a nil MD panics; FromOutgoingContext may return nil",
	"proto.Marshal/Unmarshal":                                              "opaque; Marshal result is a fresh byte slice",
	"carrier stream Send/Recv/Context/CloseSend/SendHeader/Header":         "Send may block and returns an arbitrary error; Recv returns an arbitrary frame (set oneof members non-nil) or an error; no package state is touched",
	"grpchan.HandlerMap.QueryService, grpc.MethodDesc/StreamDesc.Handler":  "lookup is pure; a handler is opaque user code (heap havoc'd)",
}

func (e *Exec) newError(st *State, hint string, status bool, code string) Val {
	tag := e.fresh("errtag:"+hint, SInt)
	val := e.allocRef(st, "err:"+hint)
	st.assume(app(">", tag, "0"))
	if status {
		st.assume(app(e.isStatusFn(), tag, val))
		st.assume(tEq(app(e.errCodeFn(), tag, val), code))
	} else {
		st.assume(tNot(app(e.isStatusFn(), tag, val)))
	}
	return Val{T: []string{tag, val}, Typ: errorType()}
}

// external applies the assumed model of a dependency function. ok=false: no model.
// A nil result with ok=true means the model already called k itself.
func (e *Exec) external(st *State, instr ssa.Instruction, name string, fn *ssa.Function, args []Val, resType types.Type, k func(*State, Val)) (*Val, bool) {
	ret := func(v Val) (*Val, bool) { v.Typ = resType; return &v, true }
	void := func() (*Val, bool) { return &Val{}, true }
	switch name {
	// ---- sync ----
	case "(*sync.Mutex).Lock", "(*sync.RWMutex).Lock":
		e.lock(st, instr, args[0], false)
		return void()
	case "(*sync.Mutex).Unlock", "(*sync.RWMutex).Unlock":
		e.unlock(st, instr, args[0], false)
		return void()
	case "(*sync.RWMutex).RLock":
		e.lock(st, instr, args[0], true)
		return void()
	case "(*sync.RWMutex).RUnlock":
		e.unlock(st, instr, args[0], true)
		return void()
	case "(*sync.Cond).Wait":
		e.condWait(st, instr, args[0])
		return void()
	case "(*sync.Cond).Signal", "(*sync.Cond).Broadcast":
		st.counts["signalled"]++
		st.events = append(st.events, "signal")
		return void()
	case "(*sync.WaitGroup).Add":
		st.counts["wg.Add"]++
		return void()
	case "(*sync.WaitGroup).Done":
		st.counts["wg.Done"]++
		return void()
	case "(*sync.WaitGroup).Wait":
		st.counts["blocking"]++
		st.counts["wg.Wait"]++
		st.events = append(st.events, "wg.Wait")
		return void()
	case "(*sync.Once).Do":
		// at most once: both outcomes (already done / runs now)
		if args[1].Clo != nil {
			e.countPath()
			s2 := st.clone()
			k(s2, Val{})
			e.staticCall(st, instr, args[1].Clo.Fn, args[1].Clo, nil, types.NewTuple(), func(s3 *State, _ Val) { k(s3, Val{}) })
			return nil, true
		}
		e.havocAll(st, "Once.Do of unknown function")
		return void()
	// ---- atomics ----
	case "(*atomic.Uint32).Load", "(*atomic.Bool).Load", "(*atomic.Int64).Load", "(*atomic.Pointer).Load":
		loc := e.atomicOf(args[0], fn)
		e.atomicInterference(st, args[0], loc)
		lv := e.loadFrom(st, loc, false)
		lv.Typ = resType
		e.assumeTypeWF(st, lv, resType)
		return ret(lv)
	case "(*atomic.Uint32).Store", "(*atomic.Bool).Store", "(*atomic.Int64).Store", "(*atomic.Pointer).Store":
		loc := e.atomicOf(args[0], fn)
		e.storeTo(st, loc, Val{T: args[1].T, Typ: loc.Typ})
		return void()
	case "(*atomic.Uint32).Add":
		loc := e.atomicOf(args[0], fn)
		e.atomicInterference(st, args[0], loc)
		old := e.loadFrom(st, loc, false)
		nv := app("bvadd", old.T[0], args[1].T[0])
		e.storeTo(st, loc, Val{T: []string{nv}, Typ: loc.Typ})
		return ret(Val{T: []string{nv}})
	case "(*atomic.Uint32).CompareAndSwap", "(*atomic.Pointer).CompareAndSwap", "(*atomic.Bool).CompareAndSwap":
		loc := e.atomicOf(args[0], fn)
		e.atomicInterference(st, args[0], loc)
		cur := e.loadFrom(st, loc, false)
		eq := tEq(cur.T[0], args[1].T[0])
		// fork: success / failure
		e.countPath()
		s2 := st.clone()
		st.assume(eq)
		e.storeTo(st, loc, Val{T: args[2].T, Typ: loc.Typ})
		if args[1].T[0] == "0" {
			st.casWon[args[0].T[0]] = true
			e.tokenAcquired(st, args[0])
		}
		st.calls["CompareAndSwap"] = callRecord{Args: append([]Val{cur}, args[1:]...), Results: Val{T: []string{"true"}}}
		k(st, Val{T: []string{"true"}, Typ: resType})
		s2.assume(tNot(eq))
		k(s2, Val{T: []string{"false"}, Typ: resType})
		return nil, true
	// ---- container/list ----
	case "list.New":
		r := e.allocRef(st, "list")
		e.listSet(st, "lo", arr(SInt, SInt), r, "0")
		e.listSet(st, "hi", arr(SInt, SInt), r, "0")
		e.listSet(st, "sum", arr(SInt, SBV(64)), r, bvLitI(0, 64))
		return ret(Val{T: []string{r}})
	case "(*list.List).Len":
		l := args[0].T[0]
		e.assumeListWF(st, l)
		lo, hi := e.listBounds(st, l, false, nil)
		n := e.fresh("list.len", SBV(64))
		st.assume(tEq(tEq(n, bvLitI(0, 64)), tEq(lo, hi)))
		st.assume(app("bvsge", n, bvLitI(0, 64)))
		return ret(Val{T: []string{n}})
	case "(*list.List).PushBack":
		l := args[0].T[0]
		e.assumeListWF(st, l)
		lo, hi := e.listBounds(st, l, false, nil)
		_ = lo
		item := args[1] // any: (tag, val)
		id := item.T[len(item.T)-1]
		els := arr(SInt, arr(SInt, SInt))
		a := e.curArr(st, "list#elems", els)
		e.setArr(st, "list#elems", els, app("store", a, l, app("store", app("select", a, l), hi, id)))
		tgs := arr(SInt, arr(SInt, SInt))
		ta := e.curArr(st, "list#tags", tgs)
		e.setArr(st, "list#tags", tgs, app("store", ta, l, app("store", app("select", ta, l), hi, item.T[0])))
		e.listSet(st, "hi", arr(SInt, SInt), l, app("+", hi, "1"))
		e.listSet(st, "sum", arr(SInt, SBV(64)), l, app("bvadd", e.listSum(st, l, false, nil), app(e.fun("meas", []string{SInt}, SBV(64)), id)))
		st.counts["PushBack"]++
		return ret(e.freshVal("elem", resType))
	case "(*list.List).PushFront":
		st.note("PushFront is not part of the FIFO model: list havoc'd")
		e.havocKey(st, "list#elems", arr(SInt, arr(SInt, SInt)))
		e.havocKey(st, "list#lo", arr(SInt, SInt))
		e.havocKey(st, "list#hi", arr(SInt, SInt))
		e.havocKey(st, "list#sum", arr(SInt, SBV(64)))
		return ret(e.freshVal("elem", resType))
	case "(*list.List).Front":
		l := args[0].T[0]
		e.assumeListWF(st, l)
		lo, hi := e.listBounds(st, l, false, nil)
		el := e.fresh("front", SInt)
		st.assume(tEq(tEq(el, "0"), tEq(lo, hi)))
		st.front[el] = [2]string{l, lo}
		return ret(Val{T: []string{el}})
	case "(*list.List).Remove":
		l := args[0].T[0]
		el := args[1].T[0]
		fi, ok := st.front[el]
		if !ok || fi[0] != l {
			st.note("list.Remove of an element that is not the known front: list havoc'd")
			e.havocKey(st, "list#lo", arr(SInt, SInt))
			e.havocKey(st, "list#sum", arr(SInt, SBV(64)))
			return ret(e.freshVal("removed", resType))
		}
		lo, _ := e.listBounds(st, l, false, nil)
		id := e.listElem(st, l, lo, false, nil)
		tag := app("select", app("select", e.curArr(st, "list#tags", arr(SInt, arr(SInt, SInt))), l), lo)
		e.listSet(st, "lo", arr(SInt, SInt), l, app("+", lo, "1"))
		ms := app(e.fun("meas", []string{SInt}, SBV(64)), id)
		e.listSet(st, "sum", arr(SInt, SBV(64)), l, app("bvsub", e.listSum(st, l, false, nil), ms))
		// the measure of a queued element is part of the sum (no wrap): ghost fact of the sequence model
		st.assume(app("bvule", ms, app("bvadd", e.listSum(st, l, false, nil), ms)))
		delete(st.front, el)
		st.counts["Remove"]++
		rv := Val{T: []string{tag, id}}
		if e.homogeneousList(args[0]) {
			rv.Prov = "listelem"
		}
		return ret(rv)
	case "(*list.List).Init":
		l := args[0].T[0]
		lo, _ := e.listBounds(st, l, false, nil)
		e.listSet(st, "hi", arr(SInt, SInt), l, lo)
		e.listSet(st, "sum", arr(SInt, SBV(64)), l, bvLitI(0, 64))
		return ret(Val{T: []string{l}})
	// ---- errors ----
	case "status.Errorf", "status.Error":
		code := args[0].T[0]
		er := e.newError(st, "status", true, code)
		// code OK yields nil
		isOK := tEq(code, bvLitI(0, 32))
		return ret(Val{T: []string{tIte(isOK, "0", er.T[0]), tIte(isOK, "0", er.T[1])}})
	case "errors.New", "fmt.Errorf":
		return ret(e.newError(st, "plain", false, ""))
	case "fmt.Sprintf", "fmt.Sprint":
		return ret(e.freshVal("sprintf", resType))
	case "status.FromError":
		// (*Status, bool): status pointer carries the code of the error; nil error -> nil status (code OK)
		er := args[0]
		sp := e.fresh("status", SInt)
		cf := e.fun("status_code", []string{SInt}, SBV(32))
		isS := app(e.isStatusFn(), er.T[0], er.T[1])
		st.assume(tImp(tEq(er.T[0], "0"), tEq(app(cf, sp), bvLitI(0, 32))))
		st.assume(tImp(tAnd(tNot(tEq(er.T[0], "0")), isS), tEq(app(cf, sp), app(e.errCodeFn(), er.T[0], er.T[1]))))
		st.assume(tImp(tAnd(tNot(tEq(er.T[0], "0")), tNot(isS)), tEq(app(cf, sp), bvLitI(2, 32))))
		st.assume(tEq(app(e.fun("status_of_err", []string{SInt, SInt}, SInt), er.T[0], er.T[1]), sp))
		return ret(Val{T: []string{sp, tOr(tEq(er.T[0], "0"), isS)}})
	case "(*status.Status).Proto":
		pf := e.fun("status_proto", []string{SInt}, SInt)
		return ret(Val{T: []string{app(pf, args[0].T[0])}})
	case "status.FromProto":
		pf := e.fun("status_from_proto", []string{SInt}, SInt)
		return ret(Val{T: []string{app(pf, args[0].T[0])}})
	case "(*status.Status).Err":
		cf := e.fun("status_code", []string{SInt}, SBV(32))
		er := e.newError(st, "status.Err", true, app(cf, args[0].T[0]))
		isOK := tOr(tEq(args[0].T[0], "0"), tEq(app(cf, args[0].T[0]), bvLitI(0, 32)))
		return ret(Val{T: []string{tIte(isOK, "0", er.T[0]), tIte(isOK, "0", er.T[1])}})
	case "(*status.Status).Code":
		cf := e.fun("status_code", []string{SInt}, SBV(32))
		return ret(Val{T: []string{app(cf, args[0].T[0])}})
	case "errors.Is":
		// errors.Is(err, target): true if identical; unknown otherwise (wrapping)
		same := tAnd(tEq(args[0].T[0], args[1].T[0]), tEq(args[0].T[1], args[1].T[1]))
		r := e.fresh("errors.Is", SBool)
		st.assume(tImp(same, r))
		st.assume(tImp(tEq(args[0].T[0], "0"), tEq(r, tEq(args[1].T[0], "0"))))
		st.assume(tImp(tAnd(tNot(same), app(e.isStatusFn(), args[0].T[0], args[0].T[1])), tNot(r)))
		return ret(Val{T: []string{r}})
	// ---- strconv / strings ----
	case "strconv.ParseUint":
		s := args[0].T[0]
		ok := e.fresh("parse.ok", SBool)
		dv := app(e.fun("dec_val", []string{SInt}, SBV(64)), s)
		ln := e.strLen(s)
		st.assume(tImp(ok, tAnd(e.allDigits(st, s), app("bvuge", ln, bvLitI(1, 64)))))
		st.assume(tImp(tAnd(e.allDigits(st, s), app("bvuge", ln, bvLitI(1, 64)), app("bvule", ln, bvLitI(19, 64))), ok))
		st.assume(tImp(tAnd(e.allDigits(st, s), app("bvule", ln, bvLitI(8, 64))), app("bvule", dv, bvLitI(99999999, 64))))
		res := e.fresh("parse.v", SBV(64))
		st.assume(tImp(ok, tEq(res, dv)))
		er := e.newError(st, "parse", false, "")
		return ret(Val{T: []string{res, tIte(ok, "0", er.T[0]), tIte(ok, "0", er.T[1])}})
	case "strconv.Atoi", "strconv.ParseInt":
		s := args[0].T[0]
		ok := e.fresh("atoi.ok", SBool)
		ln := e.strLen(s)
		c0 := e.strAt(s, bvLitI(0, 64))
		signed := tOr(tEq(c0, bvLitI('-', 8)), tEq(c0, bvLitI('+', 8)))
		body := e.strSub(s, bvLitI(1, 64), ln)
		dvS := app(e.fun("dec_val", []string{SInt}, SBV(64)), s)
		dvB := app(e.fun("dec_val", []string{SInt}, SBV(64)), body)
		wf := tOr(tAnd(tNot(signed), e.allDigits(st, s), app("bvuge", ln, bvLitI(1, 64))),
			tAnd(signed, e.allDigits(st, body), app("bvuge", ln, bvLitI(2, 64))))
		st.assume(tImp(ok, wf))
		st.assume(tImp(tAnd(wf, app("bvule", ln, bvLitI(18, 64))), ok))
		res := e.fresh("atoi.v", SBV(64))
		st.assume(tImp(tAnd(ok, tNot(signed)), tEq(res, dvS)))
		st.assume(tImp(tAnd(ok, tEq(c0, bvLitI('+', 8))), tEq(res, dvB)))
		st.assume(tImp(tAnd(ok, tEq(c0, bvLitI('-', 8))), tEq(res, app("bvneg", dvB))))
		st.assume(tImp(tAnd(e.allDigits(st, s), app("bvule", ln, bvLitI(8, 64))), app("bvule", dvS, bvLitI(99999999, 64))))
		st.assume(tImp(tAnd(e.allDigits(st, body), app("bvule", ln, bvLitI(9, 64))), app("bvule", dvB, bvLitI(99999999, 64))))
		er := e.newError(st, "atoi", false, "")
		return ret(Val{T: []string{res, tIte(ok, "0", er.T[0]), tIte(ok, "0", er.T[1])}})
	case "strings.SplitN":
		// only the n==2 use is modelled: parts = [before, after] or [s]
		s, sep := args[0].T[0], args[1].T[0]
		has := app(e.fun("s_contains", []string{SInt, SInt}, SBool), s, sep)
		r := e.allocRef(st, "split")
		n := tIte(has, bvLitI(2, 64), bvLitI(1, 64))
		before := app(e.fun("s_before", []string{SInt, SInt}, SInt), s, sep)
		after := app(e.fun("s_after", []string{SInt, SInt}, SInt), s, sep)
		et := types.Typ[types.String]
		e.storeTo(st, e.elemLoc(r, bvLitI(0, 64), et), Val{T: []string{tIte(has, before, s)}, Typ: et})
		e.storeTo(st, e.elemLoc(r, bvLitI(1, 64), et), Val{T: []string{after}, Typ: et})
		if args[2].T[0] != bvLitI(2, 64) {
			st.note("strings.SplitN with n != 2: result length havoc'd")
			n = e.fresh("split.n", SBV(64))
			st.assume(app("bvuge", n, bvLitI(1, 64)))
		}
		return ret(Val{T: []string{r, bvLitI(0, 64), n, n}})
	case "maps.Clone":
		// shallow copy: nil stays nil; otherwise a new map with the same
		// keys and the same values (element slices shared with the source)
		mt, ok := under(resType).(*types.Map)
		if !ok {
			break
		}
		m := args[0].T[0]
		r := e.allocRef(st, "mapclone")
		pk := mapKeyName(mt) + "#present"
		ps := arr(SInt, arr(e.mapKeySort(mt), SBool))
		pa := e.curArr(st, pk, ps)
		e.setArr(st, pk, ps, app("store", pa, r, app("select", pa, m)))
		for _, l := range shape(mt.Elem()) {
			vk := leafKey(mapKeyName(mt)+"#val", l)
			vs := arr(SInt, arr(e.mapKeySort(mt), l.Sort))
			va := e.curArr(st, vk, vs)
			e.setArr(st, vk, vs, app("store", va, r, app("select", va, m)))
		}
		return ret(Val{T: []string{tIte(tEq(m, "0"), "0", r)}})
	// ---- metadata ----
	case "(metadata.MD).Get":
		return ret(e.mdGet(st, args[0].T[0], args[1].T[0]))
	case "metadata.Join", "metadata.Pairs", "(metadata.MD).Copy":
		r := e.allocRef(st, "md")
		f := e.fun(sym("md_op:"+shortName(name)), []string{SInt, SInt}, SInt)
		gen := intLit(int64(st.counts["mdgen"]))
		var key string
		if name == "metadata.Join" {
			// variadic: slice of MDs; identify by its elements when length 2
			a0 := e.loadFrom(st, e.elemLoc(args[0].T[0], args[0].T[1], types.Typ[types.UnsafePointer]), false)
			_ = a0
			key = args[0].T[0]
		} else {
			key = args[0].T[0]
		}
		st.assume(tEq(app(e.fun("md_content", []string{SInt, SInt}, SInt), r, gen), app(f, key, gen)))
		if name == "(metadata.MD).Copy" {
			// nil.Copy() is an empty non-nil map; contents equal
			st.assume(tEq(app(e.fun("md_same", []string{SInt, SInt}, SBool), r, args[0].T[0]), "true"))
		}
		return ret(Val{T: []string{r}})
	case "(metadata.MD).Append", "(metadata.MD).Set":
		e.nopanic(st, "nilmap", instr, tNot(tEq(args[0].T[0], "0")))
		st.counts["mdgen"]++
		return void()
	case "(metadata.MD).Len":
		return ret(e.freshVal("mdlen", resType))
	case "metadata.FromOutgoingContext", "metadata.FromIncomingContext":
		f := e.fun(sym("ctx_md:"+shortName(name)), []string{SInt}, SInt)
		c := args[0].T[1]
		m := e.fresh("md", SInt)
		ok := e.fresh("md.ok", SBool)
		// a fresh copy (or nil when absent)
		st.assume(tEq(tEq(m, "0"), tNot(ok)))
		st.assume(app(">=", m, "0"))
		st.assume(tEq(app(e.fun("md_src", []string{SInt}, SInt), m), app(f, c)))
		return ret(Val{T: []string{m, ok}})
	case "metadata.NewIncomingContext", "metadata.NewOutgoingContext":
		c := e.derivedCtx(st, args[0], "md")
		st.assume(tEq(app(e.fun(sym("ctx_md:"+map[string]string{"metadata.NewIncomingContext": "FromIncomingContext", "metadata.NewOutgoingContext": "FromOutgoingContext"}[name]), []string{SInt}, SInt), c.T[1]), args[1].T[0]))
		return ret(c)
	case "metadata.AppendToOutgoingContext":
		c := e.derivedCtx(st, args[0], "mdappend")
		return ret(c)
	// ---- context ----
	case "context.WithCancel", "context.WithTimeout", "context.WithDeadline":
		c := e.derivedCtx(st, args[0], "cancel")
		cf := e.allocRef(st, "cancelfn")
		st.assume(tEq(app(e.fun("cancel_of", []string{SInt}, SInt), c.T[1]), cf))
		if name == "context.WithTimeout" {
			st.assume(tEq(app(e.fun("ctx_timeout", []string{SInt}, SBV(64)), c.T[1]), args[1].T[0]))
			st.assume(app(e.fun("ctx_has_timeout", []string{SInt}, SBool), c.T[1]))
		} else {
			st.assume(tNot(app(e.fun("ctx_has_timeout", []string{SInt}, SBool), c.T[1])))
		}
		return ret(Val{T: []string{c.T[0], c.T[1], cf}})
	case "context.WithValue":
		c := e.derivedCtx(st, args[0], "value")
		kv := args[1]
		kid := app(e.fun(sym("key_id:any"), []string{SInt, SInt}, SInt), kv.T[0], kv.T[1])
		st.assume(tEq(app(e.fun("ctx_value_tag", []string{SInt, SInt}, SInt), c.T[1], kid), args[2].T[0]))
		st.assume(tEq(app(e.fun("ctx_value_val", []string{SInt, SInt}, SInt), c.T[1], kid), args[2].T[1]))
		st.assume(tEq(app(e.fun("ctx_parent", []string{SInt}, SInt), c.T[1]), args[0].T[1]))
		return ret(c)
	case "context.Cause":
		// non-nil iff the context is done; any error value (the cause need not be the context's Err())
		ch := app(e.fun("ctx_done", []string{SInt}, SInt), args[0].T[1])
		closed := e.chanClosed(st, ch, false, nil)
		cv := e.freshVal("ctxcause", errorType())
		st.assume(tEq(tEq(cv.T[0], "0"), tNot(closed)))
		st.assume(tImp(tEq(cv.T[0], "0"), tEq(cv.T[1], "0")))
		return ret(cv)
	case "context.Background", "context.TODO":
		return ret(Val{T: []string{e.declare(sym("ctxtag:bg"), SInt), e.declare(sym("ctxval:bg"), SInt)}})
	case "grpc.NewContextWithServerTransportStream":
		c := e.derivedCtx(st, args[0], "sts")
		st.assume(tEq(app(e.fun("ctx_sts", []string{SInt}, SInt), c.T[1]), args[1].T[1]))
		return ret(c)
	case "peer.FromContext":
		p := e.fresh("peer", SInt)
		ok := e.fresh("peer.ok", SBool)
		st.assume(app(">=", p, "0"))
		st.assume(tEq(tEq(p, "0"), tNot(ok)))
		st.assume(tEq(app(e.fun("ctx_peer", []string{SInt}, SInt), args[0].T[1]), p))
		return ret(Val{T: []string{p, ok}})
	case "(grpchan.HandlerMap).QueryService":
		// pure lookup in the (setup-phase, immutable while serving) handler table
		sd := app(e.fun("svc_desc", []string{SInt, SInt}, SInt), args[0].T[0], args[1].T[0])
		e.addAxiom("(forall ((m Int) (n Int)) (! (>= (svc_desc m n) 0) :pattern ((svc_desc m n))))")
		ht := app(e.fun("svc_impl_tag", []string{SInt, SInt}, SInt), args[0].T[0], args[1].T[0])
		hv := app(e.fun("svc_impl_val", []string{SInt, SInt}, SInt), args[0].T[0], args[1].T[0])
		return ret(Val{T: []string{sd, ht, hv}})
	// ---- proto ----
	case "proto.Marshal":
		r := e.allocRef(st, "marshal")
		ln := e.fresh("marshal.len", SBV(64))
		st.assume(app("bvule", ln, bvLitI(1<<40, 64)))
		ok := e.fresh("marshal.ok", SBool)
		er := e.newError(st, "marshal", false, "")
		st.assume(tEq(app(e.fun("marshal_of", []string{SInt}, SInt), r), args[0].T[1]))
		return ret(Val{T: []string{tIte(ok, r, "0"), bvLitI(0, 64), tIte(ok, ln, bvLitI(0, 64)), tIte(ok, ln, bvLitI(0, 64)), tIte(ok, "0", er.T[0]), tIte(ok, "0", er.T[1])}})
	case "proto.Unmarshal":
		ok := e.fresh("unmarshal.ok", SBool)
		er := e.newError(st, "unmarshal", false, "")
		st.events = append(st.events, "unmarshal")
		st.counts["unmarshal"]++
		return ret(Val{T: []string{tIte(ok, "0", er.T[0]), tIte(ok, "0", er.T[1])}})
	case "reflect.ValueOf", "reflect.Indirect", "(reflect.Value).Type", "reflect.New", "(reflect.Value).Interface":
		return ret(e.freshVal("reflect", resType))
	}
	if strings.HasPrefix(name, "(*tunnelpb.") || strings.HasPrefix(name, "tunnelpb.") {
		// generated accessors: not used by the package's own code paths under contract
		return nil, false
	}
	return nil, false
}

func (e *Exec) derivedCtx(st *State, parent Val, why string) Val {
	tag := e.declare(sym("ctxtag:derived"), SInt)
	e.addAxiom(app(">", tag, "0"))
	v := e.allocRef(st, "ctx:"+why)
	st.assume(app(e.descendsFn(), v, parent.T[1]))
	e.addAxiom("(forall ((a Int) (b Int) (c Int)) (! (=> (and (ctx_descends a b) (ctx_descends b c)) (ctx_descends a c)) :pattern ((ctx_descends a b) (ctx_descends b c))))")
	// values of the parent stay visible unless overridden (instantiated lazily by ctxval lemma)
	st.assume(tEq(app(e.fun("ctx_parent", []string{SInt}, SInt), v), parent.T[1]))
	return Val{T: []string{tag, v}, Typ: parent.Typ}
}

func (e *Exec) addAxiom(s string) {
	for _, a := range e.axioms {
		if a == s {
			return
		}
	}
	e.axioms = append(e.axioms, s)
}

func (e *Exec) atomicOf(recv Val, fn *ssa.Function) *Loc {
	t := fn.Signature.Recv().Type().(*types.Pointer).Elem()
	return e.atomicLoc(recv.T[0], t)
}

// atomicInterference: another thread may have changed the atomic since we last
// touched it. Monotone atomics (declared 'token'/'monotone') keep non-zero values.
func (e *Exec) atomicInterference(st *State, recv Val, loc *Loc) {
	if e.isFresh(st, recv.T[0]) || (recv.Sub != nil && e.isFresh(st, recv.Sub.Obj)) {
		return
	}
	mono := false
	if recv.Sub != nil {
		if tc := e.typeContract(recv.Sub.Owner); tc != nil {
			if d, ok := tc.Fields[recv.Sub.Path]; ok && (d.Class == "token" || strings.Contains(d.Arg, "monotone")) {
				mono = true
			}
		}
	}
	old := e.loadFrom(st, loc, false)
	st.quiet++
	e.havocLoc(st, loc, false)
	st.quiet--
	nw := e.loadFrom(st, loc, false)
	if mono {
		// once set, never changes
		st.assume(tImp(tNot(tEq(old.T[0], zeroOf(shape(loc.Typ)[0].Sort))), tEq(nw.T[0], old.T[0])))
	}
}

// tokenAcquired: CAS(nil, x) succeeded on a token field.
func (e *Exec) tokenAcquired(st *State, recv Val) {
	if recv.Sub == nil {
		return
	}
	tc := e.typeContract(recv.Sub.Owner)
	if tc == nil {
		return
	}
	d, ok := tc.Fields[recv.Sub.Path]
	if !ok || d.Class != "token" {
		return
	}
	st.events = append(st.events, "token:"+recv.Sub.Owner+"."+recv.Sub.Path)
	// token invariants: facts that hold while the token has not been taken
	ov, t := e.objVal(recv.Sub.Owner, recv.Sub.Obj)
	if t == nil {
		return
	}
	e.assumeInvariants(st, recv.Sub.Owner, recv.Sub.Path, ov, t)
}

func (e *Exec) condWait(st *State, instr ssa.Instruction, c Val) {
	if c.Sub == nil {
		st.note("Wait on untracked cond")
		return
	}
	tc := e.typeContract(c.Sub.Owner)
	lockField := ""
	if tc != nil {
		if d, ok := tc.Fields[c.Sub.Path]; ok {
			lockField = firstField(d.Arg)
		}
	}
	st.counts["blocking"]++
	st.events = append(st.events, "cond.Wait")
	if lockField == "" {
		st.note("cond %s.%s has no declared mutex", c.Sub.Owner, c.Sub.Path)
		return
	}
	fn := e.fun(sym("sub."+c.Sub.Owner+"."+lockField), []string{SInt}, SInt)
	lv := Val{T: []string{app(fn, c.Sub.Obj)}, Sub: &SubObj{Owner: c.Sub.Owner, Path: lockField, Obj: c.Sub.Obj}}
	// wait guard must hold when we go to sleep
	if tc != nil {
		for i, inv := range tc.Invariants {
			if inv.Lock != c.Sub.Path {
				continue
			}
			ov, t := e.objVal(c.Sub.Owner, c.Sub.Obj)
			ctx := &evalCtx{st: st, self: &ov, selfT: t, scope: map[string]Val{}}
			g, err := e.evalBool(ctx, inv.Expr)
			if err != nil {
				e.contractError(&FuncContract{Name: "type " + c.Sub.Owner, Line: inv.Line}, inv, err)
				continue
			}
			e.oblige(st, "waitguard", fmt.Sprintf("%s/%s", e.callAnchor(st.top(), instr), clauseID(inv, i)), inv.Props, "wait guard: "+inv.Text, g, instr.Pos())
		}
	}
	e.unlock(st, instr, lv, false)
	e.lock(st, instr, lv, false)
}

// homogeneousList: the list pointer was loaded from a field declared 'listof'
// (every element put into it has the container's element type; checked by the discipline pass).
func (e *Exec) homogeneousList(l Val) bool {
	if !strings.HasPrefix(l.Prov, "field:") {
		return false
	}
	of := strings.SplitN(strings.TrimPrefix(l.Prov, "field:"), ".", 2)
	if tc := e.typeContract(of[0]); tc != nil && len(of) == 2 {
		_, ok := tc.ListOf[of[1]]
		return ok
	}
	return false
}

// ---------------- interface invokes ----------------

func ifaceName(t types.Type) string {
	if n, ok := t.(*types.Named); ok {
		return namedKey(n)
	}
	if a, ok := t.(*types.Alias); ok {
		return ifaceName(types.Unalias(a))
	}
	return typeKey(t)
}

func (e *Exec) invoke(st *State, instr ssa.Instruction, cc *ssa.CallCommon, recv Val, args []Val, resType types.Type, k func(*State, Val)) {
	in := ifaceName(cc.Value.Type())
	if i := strings.Index(in, "["); i >= 0 {
		in = in[:i]
	}
	m := cc.Method.Name()
	e.nopanic(st, "nilinvoke", instr, tNot(tEq(recv.T[0], "0")))
	st.counts["invoke:"+m]++
	key := "if:" + in + "." + m
	if fc := e.cs.Funcs[key]; fc != nil {
		scope := append([]Val{recv}, args...)
		pn := append([]string{"recv"}, fc.Params...)
		e.contractCall(st, instr, fc, pn, nil, nil, scope, resType, key, k)
		return
	}
	ret := func(v Val) { v.Typ = resType; k(st, v) }
	switch {
	case m == "Done" && (in == "context.Context"):
		ch := app(e.fun("ctx_done", []string{SInt}, SInt), recv.T[1])
		ret(Val{T: []string{ch}})
		return
	case m == "Deadline" && in == "context.Context":
		// pure: some instant and whether there is one
		ret(e.freshVal("ctxdeadline", resType))
		return
	case m == "Err" && in == "context.Context":
		ch := app(e.fun("ctx_done", []string{SInt}, SInt), recv.T[1])
		closed := e.chanClosed(st, ch, false, nil)
		er := e.fresh("ctxerr.val", SInt)
		tag := e.fresh("ctxerr.tag", SInt)
		// Err() != nil iff Done is closed; non-nil values are Canceled or DeadlineExceeded
		c1 := e.errGlobal("context.Canceled", errorType())
		c2 := e.errGlobal("context.DeadlineExceeded", errorType())
		st.assume(tEq(tEq(tag, "0"), tNot(closed)))
		st.assume(tImp(tEq(tag, "0"), tEq(er, "0")))
		st.assume(tImp(tNot(tEq(tag, "0")), tOr(tAnd(tEq(tag, c1.T[0]), tEq(er, c1.T[1])), tAnd(tEq(tag, c2.T[0]), tEq(er, c2.T[1])))))
		// cancellation is monotone: once observed closed it stays closed
		ret(Val{T: []string{tag, er}})
		return
	case m == "Value" && in == "context.Context":
		kid := app(e.fun(sym("key_id:any"), []string{SInt, SInt}, SInt), args[0].T[0], args[0].T[1])
		ret(Val{T: []string{app(e.fun("ctx_value_tag", []string{SInt, SInt}, SInt), recv.T[1], kid), app(e.fun("ctx_value_val", []string{SInt, SInt}, SInt), recv.T[1], kid)}})
		return
	case m == "Error":
		ret(e.freshVal("errstr", resType))
		return
	case m == "Context":
		st.counts["carrier.Context"]++
		// carrier stream context: a stable value per stream
		ret(Val{T: []string{app(e.fun("stream_ctx_tag", []string{SInt}, SInt), recv.T[1]), app(e.fun("stream_ctx", []string{SInt}, SInt), recv.T[1])}})
		return
	case m == "String":
		ret(e.freshVal("str", resType))
		return
	case (m == "Send" || m == "SendMsg" || m == "CloseSend" || m == "SendHeader") && isCarrier(in):
		st.counts["carrierSend"]++
		st.counts["carrier."+m]++
		st.counts["blocking"]++
		st.events = append(st.events, "carrier."+m)
		er := e.freshVal("senderr", errorType())
		st.assume(app(">=", er.T[0], "0"))
		st.assume(tImp(tEq(er.T[0], "0"), tEq(er.T[1], "0")))
		st.calls["carrier.Send"] = callRecord{Args: args, Results: er}
		ret(er)
		return
	case (m == "Recv") && isCarrier(in):
		st.counts["blocking"]++
		st.events = append(st.events, "carrier.Recv")
		msg := e.fresh("recvmsg", SInt)
		er := e.freshVal("recverr", errorType())
		st.assume(app(">=", er.T[0], "0"))
		st.assume(tImp(tEq(er.T[0], "0"), tEq(er.T[1], "0")))
		st.assume(tEq(tEq(er.T[0], "0"), tNot(tEq(msg, "0"))))
		st.assume(app(">=", msg, "0"))
		ret(Val{T: []string{msg, er.T[0], er.T[1]}})
		return
	case m == "Header" && isCarrier(in):
		st.counts["blocking"]++
		ret(e.freshVal("hdr", resType))
		return
	case m == "RequireTransportSecurity" || m == "GetRequestMetadata":
		// user callback: opaque, but cannot touch package state it has no reference to
		st.note("user callback %s.%s: result havoc'd", in, m)
		ret(e.freshVal("cb", resType))
		return
	}
	st.note("invoke %s.%s has no interface contract: heap havoc", in, m)
	e.havocAll(st, "invoke "+in+"."+m)
	ret(e.freshVal("inv:"+m, resType))
}

func isCarrier(in string) bool {
	return strings.Contains(in, "tunnelStream") || strings.Contains(in, "TunnelService_") || strings.Contains(in, "BidiStreaming") || in == "grpc.ClientStream" || in == "grpc.ServerStream"
}

var _ = fmt.Sprintf
