package engine

// extraObligations: obligations contributed by the whole-package passes
// (field disciplines, effects, goroutine inventory, Owicki-Gries). Filled in by
// the files that implement them.
func extraObligations(prog *Program, cs *Contracts, prop string) []*FuncResult {
	var out []*FuncResult
	for _, f := range extraPasses {
		out = append(out, f(prog, cs, prop)...)
	}
	return out
}

var extraPasses []func(prog *Program, cs *Contracts, prop string) []*FuncResult

// tryReplay runs a real-code replay adapter for a failed obligation, if one exists.
func tryReplay(o CheckOpts, ob *ObligationResult, inputs map[string]string) map[string]any {
	for _, a := range replayAdapters {
		if r := a(o, ob, inputs); r != nil {
			return r
		}
	}
	return nil
}

var replayAdapters []func(o CheckOpts, ob *ObligationResult, inputs map[string]string) map[string]any

// notDecided lists, per property, the clauses of the statement that this
// technique does not decide (printed in every evidence file).
var notDecided = map[string][]string{}

func assumptionsFor(prop string) []string {
	base := []string{
		"partial correctness only: termination, fairness and liveness are not proved",
		"dependency behaviour is assumed as listed under trusted_base (assumed contracts), read from the dependency sources in the module cache",
		"API preconditions of gRPC streams: at most one goroutine in SendMsg/CloseSend and one in RecvMsg per stream; services registered before serving",
		"allocation yields references distinct from every reference in the entry state; slice lengths/offsets below 2^40",
	}
	return append(base, extraAssumptions[prop]...)
}

var extraAssumptions = map[string][]string{}
