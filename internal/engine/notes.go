package engine

func init() {
	notDecided = map[string][]string{
		"C01": {"that frames eventually arrive (liveness)", "integrity and FIFO order of the carrier gRPC stream (assumed)", "the induction over the number of messages (composition lemma L-C01 is argued in DESIGN.md, its step case is what the send/readMsgLocked obligations discharge)", "proto.Marshal/Unmarshal round trip (assumed)"},
		"C02": {"status/proto library round trips (assumed contracts)", "non-UTF-8 metadata values (wire-format limitation, not claimed)", "timing of delivery"},
		"C03": {"'never indefinitely delays' as liveness", "bounded hold time of writeMu when a handler blocks in Send (argued, not proved)", "unmarshalable frames on the carrier"},
		"C04": {"that blocked operations do return (they become enabled; fairness not modelled)", "that the carrier reports its own failure", "handler cooperation after its context is cancelled"},
		"C05": {"deadlock freedom of a whole tunnel under bounded transport buffering (needs a carrier model and fairness)", "the interleaving invariant I2 is proved over an action schema whose shared accesses, successor relation and guards are checked against the SSA / proved by the executor; the effect of each access kind on (window, tokens) is the schema (trusted encoding of sync/atomic and channel semantics)", "the liveness reading (a waiting sender does resume) needs fairness"},
		"C06": {"process heap growth", "a partially reassembled message the application is actively reading", "which status the overrunning peer finally receives: the receive loop finishes the stream with ResourceExhausted (proved), but it cancels the handler's context first, and a handler that returns at once may win the race for writeMu and have its own Canceled status sent instead (observed on the real code by a seeded-change author; a race between two finishStream calls that no per-function contract decides; DESIGN section 12, 'observed but not claimed')"},
		"C07": {"'once the tunnel has delivered the notice' (carrier)", "'without waiting' beyond the nosend/nowait effects"},
		"C08": {"wire order between different goroutines' frames other than new_stream (which is sent under the creation lock)", "that the server's user handler terminates"},
		"C09": {"'hung' (liveness)", "messages built in-process by hostile Go code that violate protobuf well-formedness (set oneof members / map values non-nil)"},
		"C10": {"'GracefulStop returns once those RPCs have finished' (liveness; by reading, nothing ends an idle tunnel while closing)", "sync.WaitGroup semantics (assumed)"},
		"C11": {"'instead of hanging' (liveness)", "behaviour of real legacy binaries (only this package's emissions towards a peer that did not advertise negotiation are constrained)"},
		"C12": {"'at every quiescent moment' across the two unsynchronised registry levels (argued from the add/remove pairing obligations)", "n consecutive picks hit n tunnels: the one-step successor (pick's postcondition, rrnext) and the arithmetic lemmas rr_base/rr_step/rr_range/rr_distinct are discharged; the induction on the number of picks and the pigeonhole step that combine them are two lines of meta-argument in the contract file, not mechanised; a concurrent change of the tunnel set between picks is outside the statement ('stable set')"},
		"C13": {"relative order of frames emitted by different goroutines of one stream", "no request data after half-close relies on the API precondition 'no SendMsg after CloseSend'"},
		"C14": {"that enabled goroutines are scheduled and that carrier calls return", "that user handlers return after their context is cancelled"},
		"C15": {"races inside dependencies or on caller-owned memory other than header/trailer targets", "deadlocks involving the carrier or user callbacks invoked under a lock", "anything only a dynamic race detector would observe; the claim is the lock/atomic/publication discipline on package-owned fields"},
		"C16": {"behaviour of generated stubs above the tunnel (only the tunnel's own enforcement is proved)"},
		"C17": {"values set by user interceptors (opaque; preserved by 'descends')", "metadata.MD.Copy deep-copies value slices (assumed contract read from its source)"},
		"C18": {"the clock behind context.WithTimeout"},
	}
	extraAssumptions = map[string][]string{
		"C09": {"protobuf runtime well-formedness: a set oneof wrapper and its message are non-nil, map values of message type are non-nil"},
		"C02": {"call-option targets (grpc.Header/Trailer/Peer addresses, credentials) supplied by the caller are non-nil (API precondition, declared as 'invariant api')"},
		"C05": {"measure functions are pure and frames immutable after receipt", "at most one goroutine in dequeue per receiver (held readMu at every call site is proved)"},
		"C15": {"setup-phase state (handler maps, options) is written before serving starts (API precondition)"},
	}
}
