package engine

import (
	"bufio"
	"fmt"
	"math/big"
	"os"
	"regexp"
	"strconv"
	"strings"
	"unicode"
)

// ---------- expression AST ----------

type Expr interface{}

type (
	EIdent struct{ Name string }
	EInt   struct{ V *big.Int }
	EBool  struct{ V bool }
	EStr   struct{ S string }
	EUn    struct {
		Op string
		X  Expr
	}
	EBin struct {
		Op   string
		L, R Expr
	}
	ESel struct {
		X Expr
		F string
	}
	EIndex struct{ X, I Expr }
	ESlice struct{ X, Lo, Hi Expr }
	ECall  struct {
		F    string
		Args []Expr
	}
	EIs struct {
		X Expr
		T string
	}
	EForall struct {
		Var, Type string
		In        Expr // non-nil: element quantifier over a slice
		Body      Expr
	}
)

// ---------- clauses ----------

type Anchor struct {
	Kind   string // call, return, go, close, store
	Target string // callee / field short name ("" for return/go)
	Ord    int    // 1-based ordinal in source order; 0 = every such instruction
}

func (a *Anchor) String() string {
	if a == nil {
		return ""
	}
	o := "*"
	if a.Ord > 0 {
		o = strconv.Itoa(a.Ord)
	}
	if a.Target != "" {
		return a.Kind + ":" + a.Target + "#" + o
	}
	return a.Kind + "#" + o
}

type Clause struct {
	Kind   string // requires ensures invariant assert ghost
	Props  []string
	Label  string
	Expr   Expr
	Text   string
	Line   int
	Loop   int
	Anchor *Anchor
	Ghost  string // for ghost updates: variable assigned
	Lock   string // for type invariants: guarding mutex field
	// Optional: the anchor need not exist ('never call X': the obligation
	// arises only where such a call is present)
	Optional bool
}

func (c *Clause) HasProp(p string) bool {
	if p == "" {
		return true
	}
	for _, q := range c.Props {
		if q == p {
			return true
		}
	}
	return false
}

type GhostDecl struct {
	Name string
	Type string
	Init Expr
	Line int
}

type AssignSpec struct {
	Obj   Expr   // object expression (nil => any object: whole array)
	Field string // field name, "*" = all fields of the object
	Text  string
}

type FuncContract struct {
	Name      string
	Line      int
	Requires  []*Clause
	Ensures   []*Clause
	LoopInv   map[int][]*Clause
	At        []*Clause
	Ghosts    []GhostDecl
	Assigns   []AssignSpec
	HasAssign bool // an assigns clause was given (possibly empty = pure)
	Locks     []Expr
	LockTexts []string
	AnyLocks  []string // "T.mu": monitors of unnamed objects of type T
	Inline    bool
	Trusted   bool
	Effects   []string
	EffProps  []string
	Lets      []struct {
		Name string
		E    Expr
	}
	Witness []struct {
		Name string
		E    Expr
	}
	Params []string // for funcfield / interface contracts: parameter names
	NoPanicProps []string
	NoPanicKinds []string // restrict no-panic obligations to these kinds; the rest are API preconditions (assumed)
	HasNoPanic   bool
}

type FieldDisc struct {
	Class string // immutable, guarded_by, atomic, published_by, confined, monitor, setup, free
	Arg   string
	Line  int
}

type TypeContract struct {
	Name       string
	Fields     map[string]FieldDisc
	Invariants []*Clause
	ListOf     map[string]string // field -> "measured" marker
}

type SpecFunc struct {
	Name   string
	Params []string
	Body   Expr
}

type Contracts struct {
	Lemmas     []*Clause // closed formulas over mathematical integers, discharged on every run
	File       string
	AssumeProp string // when set: the property being checked (see runAtClause)
	Funcs      map[string]*FuncContract // incl. funcfield "(*T).f" keyed "ff:(*T).f" and interface "if:I.m"
	Types      map[string]*TypeContract
	Consts     map[string]struct{ Type string; Val *big.Int }
	SpecFuncs  map[string]*SpecFunc
	Goroutines []GoEntry
	LockOrder  [][2]string
	Lines      int
}

type GoEntry struct {
	Site  string // "func#k"
	Class string
	Text  string
	Line  int
}

var propsRe = regexp.MustCompile(`^([a-z_]+)\[([A-Z0-9, ]+)\]`)

// ParseContracts reads //@ lines from path.
func ParseContracts(path string) (*Contracts, error) {
	f, err := os.Open(path)
	if err != nil {
		return nil, err
	}
	defer f.Close()
	cs := &Contracts{File: path, Funcs: map[string]*FuncContract{}, Types: map[string]*TypeContract{},
		Consts: map[string]struct{ Type string; Val *big.Int }{}, SpecFuncs: map[string]*SpecFunc{}}
	sc := bufio.NewScanner(f)
	sc.Buffer(make([]byte, 1<<20), 1<<20)
	var curF *FuncContract
	var curT *TypeContract
	var curAnchor *Anchor
	var anchorIndent int
	ln := 0
	var pending string // continuation accumulation
	var pendingLine int
	flush := func() error { return nil }
	handle := func(line string, lineNo int, indent int) error {
		// strip trailing comment
		if i := strings.Index(line, " // "); i >= 0 {
			line = strings.TrimSpace(line[:i])
		}
		if line == "" {
			return nil
		}
		fields := strings.Fields(line)
		head := fields[0]
		var props []string
		if m := propsRe.FindStringSubmatch(line); m != nil {
			head = m[1]
			for _, p := range strings.Split(m[2], ",") {
				props = append(props, strings.TrimSpace(p))
			}
			line = head + " " + strings.TrimSpace(line[len(m[0]):])
		}
		rest := strings.TrimSpace(strings.TrimPrefix(line, head))
		if curAnchor != nil && indent <= anchorIndent {
			curAnchor = nil
		}
		switch head {
		case "lemma":
			// lemma[Cxx] @label closed-formula
			lab, body := splitLabel(rest)
			ex, err := ParseExpr(body)
			if err != nil {
				return fmt.Errorf("line %d: %v", lineNo, err)
			}
			cs.Lemmas = append(cs.Lemmas, &Clause{Kind: "lemma", Props: props, Label: lab, Expr: ex, Text: body, Line: lineNo})
			return nil
		case "spec":
			if strings.HasPrefix(rest, "const ") {
				// spec const NAME type = value
				parts := strings.Fields(rest)
				if len(parts) != 5 || parts[3] != "=" {
					return fmt.Errorf("line %d: bad spec const", lineNo)
				}
				v, ok := new(big.Int).SetString(parts[4], 0)
				if !ok {
					return fmt.Errorf("line %d: bad const value", lineNo)
				}
				cs.Consts[parts[1]] = struct{ Type string; Val *big.Int }{parts[2], v}
				return nil
			}
			if strings.HasPrefix(rest, "func ") {
				// spec func name(a, b) = expr
				rest = strings.TrimPrefix(rest, "func ")
				eq := strings.Index(rest, "=")
				lp := strings.Index(rest, "(")
				rp := strings.Index(rest, ")")
				if eq < 0 || lp < 0 || rp < lp || eq < rp {
					return fmt.Errorf("line %d: bad spec func", lineNo)
				}
				sf := &SpecFunc{Name: strings.TrimSpace(rest[:lp])}
				for _, p := range strings.Split(rest[lp+1:rp], ",") {
					p = strings.TrimSpace(p)
					if p != "" {
						sf.Params = append(sf.Params, strings.Fields(p)[0])
					}
				}
				e, err := ParseExpr(strings.TrimSpace(rest[eq+1:]))
				if err != nil {
					return fmt.Errorf("line %d: %v", lineNo, err)
				}
				sf.Body = e
				cs.SpecFuncs[sf.Name] = sf
				return nil
			}
			return fmt.Errorf("line %d: bad spec", lineNo)
		case "func", "funcfield", "interface":
			name := rest
			var params []string
			if head != "func" {
				// optional (a, b, c) parameter names
				if lp := strings.Index(rest, " ("); lp >= 0 && strings.HasSuffix(rest, ")") {
					name = strings.TrimSpace(rest[:lp])
					for _, p := range strings.Split(rest[lp+2:len(rest)-1], ",") {
						if p = strings.TrimSpace(p); p != "" {
							params = append(params, p)
						}
					}
				}
			}
			key := name
			if head == "funcfield" {
				key = "ff:" + name
			} else if head == "interface" {
				key = "if:" + name
			}
			if _, dup := cs.Funcs[key]; dup {
				return fmt.Errorf("line %d: duplicate contract for %s", lineNo, key)
			}
			curF = &FuncContract{Name: key, Line: lineNo, LoopInv: map[int][]*Clause{}, Params: params}
			cs.Funcs[key] = curF
			curT = nil
			curAnchor = nil
			return nil
		case "type":
			curT = &TypeContract{Name: rest, Fields: map[string]FieldDisc{}, ListOf: map[string]string{}}
			cs.Types[rest] = curT
			curF = nil
			curAnchor = nil
			return nil
		case "goroutine":
			// goroutine <func>#k class: text
			parts := strings.SplitN(rest, " ", 3)
			ge := GoEntry{Site: parts[0], Line: lineNo}
			if len(parts) > 1 {
				ge.Class = parts[1]
			}
			if len(parts) > 2 {
				ge.Text = parts[2]
			}
			cs.Goroutines = append(cs.Goroutines, ge)
			return nil
		case "lockorder":
			parts := strings.Split(rest, "<")
			for i := 0; i+1 < len(parts); i++ {
				cs.LockOrder = append(cs.LockOrder, [2]string{strings.TrimSpace(parts[i]), strings.TrimSpace(parts[i+1])})
			}
			return nil
		}
		if curT != nil {
			switch head {
			case "field":
				// field a, b <class> [arg]
				// find class keyword
				classes := []string{"immutable", "guarded_by", "atomic", "published_by", "confined", "monitor", "setup", "free", "token"}
				idx := -1
				cls := ""
				for _, c := range classes {
					if i := strings.Index(" "+rest+" ", " "+c+" "); i >= 0 && (idx < 0 || i < idx) {
						idx, cls = i, c
					}
				}
				if idx < 0 {
					return fmt.Errorf("line %d: field without class", lineNo)
				}
				names := strings.Split(rest[:idx], ",")
				arg := strings.TrimSpace(rest[idx+len(cls):])
				for _, n := range names {
					if n = strings.TrimSpace(n); n != "" {
						curT.Fields[n] = FieldDisc{Class: cls, Arg: arg, Line: lineNo}
					}
				}
				return nil
			case "invariant":
				// invariant mu : expr
				i := strings.Index(rest, ":")
				if i < 0 {
					return fmt.Errorf("line %d: invariant needs 'lock : expr'", lineNo)
				}
				lbl, ex := splitLabel(strings.TrimSpace(rest[i+1:]))
				e, err := ParseExpr(ex)
				if err != nil {
					return fmt.Errorf("line %d: %v", lineNo, err)
				}
				curT.Invariants = append(curT.Invariants, &Clause{Kind: "lockinv", Props: props, Expr: e, Text: ex, Line: lineNo, Lock: strings.TrimSpace(rest[:i]), Label: lbl})
				return nil
			case "listof":
				parts := strings.Fields(rest)
				curT.ListOf[parts[0]] = strings.Join(parts[1:], " ")
				return nil
			}
			return fmt.Errorf("line %d: unknown type clause %q", lineNo, head)
		}
		if curF == nil {
			return fmt.Errorf("line %d: clause outside func/type block: %s", lineNo, line)
		}
		mk := func(kind, text string) (*Clause, error) {
			lbl, ex := splitLabel(text)
			e, err := ParseExpr(ex)
			if err != nil {
				return nil, fmt.Errorf("line %d: %v", lineNo, err)
			}
			return &Clause{Kind: kind, Props: props, Expr: e, Text: ex, Line: lineNo, Label: lbl}, nil
		}
		if head == "at" {
			// at <anchor> [clause...]
			a, remain, err := parseAnchor(rest)
			if err != nil {
				return fmt.Errorf("line %d: %v", lineNo, err)
			}
			if remain == "" {
				curAnchor = a
				anchorIndent = indent
				return nil
			}
			saved := curAnchor
			curAnchor = a
			anchorIndent = indent - 1
			line = remain
			// re-dispatch the remainder as a clause under this anchor
			if m := propsRe.FindStringSubmatch(line); m != nil {
				props = nil
				for _, p := range strings.Split(m[2], ",") {
					props = append(props, strings.TrimSpace(p))
				}
				line = m[1] + " " + strings.TrimSpace(line[len(m[0]):])
			}
			fields = strings.Fields(line)
			head = fields[0]
			rest = strings.TrimSpace(strings.TrimPrefix(line, head))
			defer func() { curAnchor = saved }()
		}
		switch head {
		case "requires":
			c, err := mk("requires", rest)
			if err != nil {
				return err
			}
			curF.Requires = append(curF.Requires, c)
		case "ensures":
			c, err := mk("ensures", rest)
			if err != nil {
				return err
			}
			curF.Ensures = append(curF.Ensures, c)
		case "loop":
			// loop N invariant[..] expr   (props may follow 'invariant')
			parts := strings.SplitN(rest, " ", 2)
			n, err := strconv.Atoi(parts[0])
			if err != nil || len(parts) < 2 {
				return fmt.Errorf("line %d: bad loop clause", lineNo)
			}
			r2 := strings.TrimSpace(parts[1])
			if m := propsRe.FindStringSubmatch(r2); m != nil {
				for _, p := range strings.Split(m[2], ",") {
					props = append(props, strings.TrimSpace(p))
				}
				r2 = m[1] + " " + strings.TrimSpace(r2[len(m[0]):])
			}
			if !strings.HasPrefix(r2, "invariant") {
				return fmt.Errorf("line %d: expected 'invariant'", lineNo)
			}
			c, err := mk("invariant", strings.TrimSpace(strings.TrimPrefix(r2, "invariant")))
			if err != nil {
				return err
			}
			c.Loop = n
			curF.LoopInv[n] = append(curF.LoopInv[n], c)
		case "assert", "assume":
			if curAnchor == nil {
				return fmt.Errorf("line %d: assert outside 'at'", lineNo)
			}
			c, err := mk(head, rest)
			if err != nil {
				return err
			}
			c.Anchor = curAnchor
			curF.At = append(curF.At, c)
		case "ghost":
			if curAnchor != nil {
				// ghost update: name = expr   or name += expr
				op := "="
				i := strings.Index(rest, "+=")
				if i >= 0 {
					op = "+="
				} else {
					i = strings.Index(rest, "=")
				}
				if i < 0 {
					return fmt.Errorf("line %d: bad ghost update", lineNo)
				}
				name := strings.TrimSpace(rest[:i])
				ex := strings.TrimSpace(rest[i+len(op):])
				if op == "+=" {
					ex = name + " + (" + ex + ")"
				}
				e, err := ParseExpr(ex)
				if err != nil {
					return fmt.Errorf("line %d: %v", lineNo, err)
				}
				curF.At = append(curF.At, &Clause{Kind: "ghost", Expr: e, Text: rest, Line: lineNo, Anchor: curAnchor, Ghost: name})
				return nil
			}
			// ghost name type = expr
			parts := strings.SplitN(rest, "=", 2)
			nt := strings.Fields(parts[0])
			if len(nt) != 2 || len(parts) != 2 {
				return fmt.Errorf("line %d: bad ghost decl", lineNo)
			}
			e, err := ParseExpr(strings.TrimSpace(parts[1]))
			if err != nil {
				return fmt.Errorf("line %d: %v", lineNo, err)
			}
			curF.Ghosts = append(curF.Ghosts, GhostDecl{Name: nt[0], Type: nt[1], Init: e, Line: lineNo})
		case "let":
			parts := strings.SplitN(rest, "=", 2)
			if len(parts) != 2 {
				return fmt.Errorf("line %d: bad let", lineNo)
			}
			e, err := ParseExpr(strings.TrimSpace(parts[1]))
			if err != nil {
				return fmt.Errorf("line %d: %v", lineNo, err)
			}
			curF.Lets = append(curF.Lets, struct {
				Name string
				E    Expr
			}{strings.TrimSpace(parts[0]), e})
		case "assigns":
			curF.HasAssign = true
			if rest == "" || rest == "nothing" {
				return nil
			}
			for _, a := range splitTop(rest, ',') {
				a = strings.TrimSpace(a)
				if a == "*" {
					curF.Assigns = append(curF.Assigns, AssignSpec{Field: "**", Text: a})
					continue
				}
				if (strings.HasPrefix(a, "list(") || strings.HasPrefix(a, "map(") || strings.HasPrefix(a, "chan(") || strings.HasPrefix(a, "cell(") || strings.HasPrefix(a, "elems(") || strings.HasPrefix(a, "cancel(") || strings.HasPrefix(a, "rcancelled(") || strings.HasPrefix(a, "rclosed(")) && strings.HasSuffix(a, ")") {
					kind := a[:strings.Index(a, "(")]
					e, err := ParseExpr(a[len(kind)+1 : len(a)-1])
					if err != nil {
						return fmt.Errorf("line %d: %v", lineNo, err)
					}
					curF.Assigns = append(curF.Assigns, AssignSpec{Obj: e, Field: "@" + kind, Text: a})
					continue
				}
				i := strings.LastIndex(a, ".")
				if i < 0 {
					return fmt.Errorf("line %d: assigns needs obj.field", lineNo)
				}
				as := AssignSpec{Field: a[i+1:], Text: a}
				if a[:i] != "*" {
					e, err := ParseExpr(a[:i])
					if err != nil {
						return fmt.Errorf("line %d: %v", lineNo, err)
					}
					as.Obj = e
				}
				curF.Assigns = append(curF.Assigns, as)
			}
		case "locks":
			for _, a := range splitTop(rest, ',') {
				a = strings.TrimSpace(a)
				if strings.HasPrefix(a, "any ") {
					// "any T.mu": a monitor of some object of type T that callers cannot name
					curF.AnyLocks = append(curF.AnyLocks, strings.TrimSpace(strings.TrimPrefix(a, "any ")))
					continue
				}
				e, err := ParseExpr(a)
				if err != nil {
					return fmt.Errorf("line %d: %v", lineNo, err)
				}
				curF.Locks = append(curF.Locks, e)
				curF.LockTexts = append(curF.LockTexts, a)
			}
		case "witness":
			parts := strings.SplitN(rest, "=", 2)
			if len(parts) != 2 {
				return fmt.Errorf("line %d: bad witness", lineNo)
			}
			e, err := ParseExpr(strings.TrimSpace(parts[1]))
			if err != nil {
				return fmt.Errorf("line %d: %v", lineNo, err)
			}
			curF.Witness = append(curF.Witness, struct {
				Name string
				E    Expr
			}{strings.TrimSpace(parts[0]), e})
		case "inline":
			curF.Inline = true
		case "trusted":
			curF.Trusted = true
		case "never":
			// never[Cxx] @label call Name : no call of that name anywhere in the function
			lab, body := splitLabel(rest)
			f := strings.Fields(body)
			if curF == nil || len(f) != 2 || f[0] != "call" {
				return fmt.Errorf("line %d: bad never clause (want: never call Name)", lineNo)
			}
			curF.At = append(curF.At, &Clause{Kind: "assert", Props: props, Label: lab, Expr: &EBool{V: false}, Text: "never call " + f[1], Line: lineNo,
				Anchor: &Anchor{Kind: "call", Target: f[1]}, Optional: true})
		case "effects":
			for _, a := range splitTop(rest, ',') {
				curF.Effects = append(curF.Effects, strings.TrimSpace(a))
			}
			curF.EffProps = append(curF.EffProps, props...)
		case "nopanic":
			curF.HasNoPanic = true
			curF.NoPanicProps = append(curF.NoPanicProps, props...)
			if strings.HasPrefix(rest, "kinds ") {
				for _, k := range strings.Split(strings.TrimPrefix(rest, "kinds "), ",") {
					curF.NoPanicKinds = append(curF.NoPanicKinds, strings.TrimSpace(k))
				}
			}
		default:
			return fmt.Errorf("line %d: unknown clause %q", lineNo, head)
		}
		return nil
	}
	_ = flush
	var pendingIndent int
	for sc.Scan() {
		ln++
		raw := sc.Text()
		t := strings.TrimSpace(raw)
		if !strings.HasPrefix(t, "//@") {
			continue
		}
		body := t[3:]
		indent := len(body) - len(strings.TrimLeft(body, " \t"))
		body = strings.TrimSpace(body)
		if strings.HasPrefix(body, "...") || strings.HasPrefix(body, "&& ") || strings.HasPrefix(body, "|| ") || strings.HasPrefix(body, "==> ") {
			// continuation line
			pending += " " + strings.TrimPrefix(body, "...")
			continue
		}
		if pending != "" {
			if err := handle(pending, pendingLine, pendingIndent); err != nil {
				return nil, err
			}
		}
		pending, pendingLine, pendingIndent = body, ln, indent
	}
	if pending != "" {
		if err := handle(pending, pendingLine, pendingIndent); err != nil {
			return nil, err
		}
	}
	cs.Lines = ln
	return cs, nil
}

func splitLabel(s string) (string, string) {
	if strings.HasPrefix(s, "@") {
		i := strings.IndexAny(s, " \t")
		if i > 0 {
			return s[1:i], strings.TrimSpace(s[i:])
		}
	}
	return "", s
}

func splitTop(s string, sep rune) []string {
	var out []string
	d := 0
	start := 0
	for i, c := range s {
		switch c {
		case '(', '[':
			d++
		case ')', ']':
			d--
		default:
			if c == sep && d == 0 {
				out = append(out, s[start:i])
				start = i + 1
			}
		}
	}
	out = append(out, s[start:])
	return out
}

var anchorRe = regexp.MustCompile(`^(aftercall|call|return|go|close|store|select|recv|chansend)(?:\s+([A-Za-z_][A-Za-z0-9_.]*))?#(\*|[0-9]+)\s*(.*)$`)

func parseAnchor(s string) (*Anchor, string, error) {
	m := anchorRe.FindStringSubmatch(s)
	if m == nil {
		return nil, "", fmt.Errorf("bad anchor %q", s)
	}
	a := &Anchor{Kind: m[1], Target: m[2]}
	if m[3] != "*" {
		a.Ord, _ = strconv.Atoi(m[3])
	}
	return a, strings.TrimSpace(m[4]), nil
}

// ---------- expression parser (Pratt) ----------

type tok struct {
	kind string // id int str op eof
	s    string
}

func lexExpr(s string) ([]tok, error) {
	var ts []tok
	i := 0
	for i < len(s) {
		c := s[i]
		switch {
		case c == ' ' || c == '\t':
			i++
		case unicode.IsLetter(rune(c)) || c == '_':
			j := i
			for j < len(s) && (unicode.IsLetter(rune(s[j])) || unicode.IsDigit(rune(s[j])) || s[j] == '_') {
				j++
			}
			ts = append(ts, tok{"id", s[i:j]})
			i = j
		case unicode.IsDigit(rune(c)):
			j := i
			for j < len(s) && (unicode.IsDigit(rune(s[j])) || unicode.IsLetter(rune(s[j])) || s[j] == '_') {
				j++
			}
			ts = append(ts, tok{"int", s[i:j]})
			i = j
		case c == '"':
			j := i + 1
			for j < len(s) && s[j] != '"' {
				if s[j] == '\\' {
					j++
				}
				j++
			}
			if j >= len(s) {
				return nil, fmt.Errorf("unterminated string")
			}
			str, err := strconv.Unquote(s[i : j+1])
			if err != nil {
				return nil, err
			}
			ts = append(ts, tok{"str", str})
			i = j + 1
		case c == '\'':
			j := strings.IndexByte(s[i+1:], '\'')
			if j < 0 {
				return nil, fmt.Errorf("unterminated char")
			}
			r, _, _, err := strconv.UnquoteChar(s[i+1:i+1+j], '\'')
			if err != nil {
				return nil, err
			}
			ts = append(ts, tok{"int", strconv.Itoa(int(r))})
			i = i + 2 + j
		default:
			ops := []string{"<==>", "==>", "==", "!=", "<=", ">=", "&&", "||", "<<", ">>", "<", ">", "+", "-", "*", "/", "%", "!", "(", ")", "[", "]", ".", ",", ":", "&", "|", "^"}
			found := false
			for _, op := range ops {
				if strings.HasPrefix(s[i:], op) {
					ts = append(ts, tok{"op", op})
					i += len(op)
					found = true
					break
				}
			}
			if !found {
				return nil, fmt.Errorf("unexpected character %q in %q", c, s)
			}
		}
	}
	ts = append(ts, tok{"eof", ""})
	return ts, nil
}

type exprParser struct {
	ts  []tok
	pos int
}

func ParseExpr(s string) (Expr, error) {
	ts, err := lexExpr(s)
	if err != nil {
		return nil, err
	}
	p := &exprParser{ts: ts}
	e, err := p.parse(0)
	if err != nil {
		return nil, fmt.Errorf("%v in %q", err, s)
	}
	if p.peek().kind != "eof" {
		return nil, fmt.Errorf("trailing tokens at %q in %q", p.peek().s, s)
	}
	return e, nil
}

func (p *exprParser) peek() tok { return p.ts[p.pos] }
func (p *exprParser) next() tok { t := p.ts[p.pos]; p.pos++; return t }

var binPrec = map[string]int{
	"<==>": 1, "==>": 2, "||": 3, "&&": 4,
	"==": 5, "!=": 5, "<": 5, "<=": 5, ">": 5, ">=": 5, "is": 5,
	"+": 6, "-": 6, "|": 6, "^": 6,
	"*": 7, "/": 7, "%": 7, "&": 7, "<<": 7, ">>": 7,
}

func (p *exprParser) parse(minPrec int) (Expr, error) {
	lhs, err := p.unary()
	if err != nil {
		return nil, err
	}
	for {
		t := p.peek()
		op := t.s
		if t.kind == "id" && t.s == "is" {
			op = "is"
		} else if t.kind != "op" {
			break
		}
		prec, ok := binPrec[op]
		if !ok || prec < minPrec {
			break
		}
		p.next()
		if op == "is" {
			tn, err := p.typeName()
			if err != nil {
				return nil, err
			}
			lhs = &EIs{X: lhs, T: tn}
			continue
		}
		nextMin := prec + 1
		if op == "==>" {
			nextMin = prec // right assoc
		}
		rhs, err := p.parse(nextMin)
		if err != nil {
			return nil, err
		}
		lhs = &EBin{Op: op, L: lhs, R: rhs}
	}
	return lhs, nil
}

func (p *exprParser) typeName() (string, error) {
	s := ""
	for p.peek().kind == "op" && (p.peek().s == "*" || p.peek().s == "[" || p.peek().s == "]") {
		s += p.next().s
	}
	if p.peek().kind != "id" {
		return "", fmt.Errorf("expected type name")
	}
	s += p.next().s
	for p.peek().kind == "op" && p.peek().s == "." {
		p.next()
		if p.peek().kind != "id" {
			return "", fmt.Errorf("expected ident after '.'")
		}
		s += "." + p.next().s
	}
	return s, nil
}

func (p *exprParser) unary() (Expr, error) {
	t := p.peek()
	if t.kind == "id" && t.s == "forall" && p.ts[p.pos+1].kind == "id" {
		p.next()
		v := p.next().s
		if p.peek().kind == "id" && p.peek().s == "in" {
			// forall x in <slice expr> :: body   (quantifies over the elements)
			p.next()
			coll, err := p.parse(3)
			if err != nil {
				return nil, err
			}
			if p.next().s != ":" || p.next().s != ":" {
				return nil, fmt.Errorf("expected '::' after forall binder")
			}
			body, err := p.parse(0)
			if err != nil {
				return nil, err
			}
			return &EForall{Var: v, In: coll, Body: body}, nil
		}
		tn, err := p.typeName()
		if err != nil {
			return nil, err
		}
		if p.next().s != ":" || p.next().s != ":" {
			return nil, fmt.Errorf("expected '::' after forall binder")
		}
		body, err := p.parse(0)
		if err != nil {
			return nil, err
		}
		return &EForall{Var: v, Type: tn, Body: body}, nil
	}
	if t.kind == "op" && (t.s == "!" || t.s == "-" || t.s == "*") {
		p.next()
		x, err := p.unary()
		if err != nil {
			return nil, err
		}
		return &EUn{Op: t.s, X: x}, nil
	}
	return p.postfix()
}

func (p *exprParser) postfix() (Expr, error) {
	var e Expr
	t := p.next()
	switch t.kind {
	case "int":
		v, ok := new(big.Int).SetString(strings.ReplaceAll(t.s, "_", ""), 0)
		if !ok {
			return nil, fmt.Errorf("bad integer %q", t.s)
		}
		e = &EInt{V: v}
	case "str":
		e = &EStr{S: t.s}
	case "id":
		switch t.s {
		case "true":
			e = &EBool{true}
		case "false":
			e = &EBool{false}
		default:
			e = &EIdent{Name: t.s}
		}
	case "op":
		if t.s == "(" {
			x, err := p.parse(0)
			if err != nil {
				return nil, err
			}
			if p.next().s != ")" {
				return nil, fmt.Errorf("expected )")
			}
			e = x
		} else {
			return nil, fmt.Errorf("unexpected %q", t.s)
		}
	default:
		return nil, fmt.Errorf("unexpected end of expression")
	}
	for {
		t := p.peek()
		if t.kind != "op" {
			break
		}
		switch t.s {
		case ".":
			p.next()
			id := p.next()
			if id.kind != "id" {
				return nil, fmt.Errorf("expected field name")
			}
			e = &ESel{X: e, F: id.s}
		case "(":
			id, ok := e.(*EIdent)
			if !ok {
				return nil, fmt.Errorf("call of non-identifier")
			}
			p.next()
			var args []Expr
			if p.peek().s != ")" {
				for {
					a, err := p.parse(0)
					if err != nil {
						return nil, err
					}
					args = append(args, a)
					if p.peek().s == "," {
						p.next()
						continue
					}
					break
				}
			}
			if p.next().s != ")" {
				return nil, fmt.Errorf("expected ) after arguments")
			}
			e = &ECall{F: id.Name, Args: args}
		case "[":
			p.next()
			var lo, hi Expr
			var err error
			isSlice := false
			if p.peek().s != ":" {
				lo, err = p.parse(0)
				if err != nil {
					return nil, err
				}
			}
			if p.peek().s == ":" {
				isSlice = true
				p.next()
				if p.peek().s != "]" {
					hi, err = p.parse(0)
					if err != nil {
						return nil, err
					}
				}
			}
			if p.next().s != "]" {
				return nil, fmt.Errorf("expected ]")
			}
			if isSlice {
				e = &ESlice{X: e, Lo: lo, Hi: hi}
			} else {
				e = &EIndex{X: e, I: lo}
			}
		default:
			return e, nil
		}
	}
	return e, nil
}

func exprString(e Expr) string {
	switch e := e.(type) {
	case *EIdent:
		return e.Name
	case *EInt:
		return e.V.String()
	case *EBool:
		return fmt.Sprint(e.V)
	case *EStr:
		return strconv.Quote(e.S)
	case *EUn:
		return e.Op + exprString(e.X)
	case *EBin:
		return "(" + exprString(e.L) + " " + e.Op + " " + exprString(e.R) + ")"
	case *ESel:
		return exprString(e.X) + "." + e.F
	case *EIndex:
		return exprString(e.X) + "[" + exprString(e.I) + "]"
	case *ESlice:
		return exprString(e.X) + "[..]"
	case *ECall:
		var as []string
		for _, a := range e.Args {
			as = append(as, exprString(a))
		}
		return e.F + "(" + strings.Join(as, ", ") + ")"
	case *EIs:
		return exprString(e.X) + " is " + e.T
	case *EForall:
		return "forall " + e.Var + " " + e.Type + " :: " + exprString(e.Body)
	}
	return "?"
}
