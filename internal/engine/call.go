package engine

import (
	"fmt"
	"go/token"
	"go/types"
	"strings"

	"golang.org/x/tools/go/ssa"
)

// fullName of a static callee, e.g. "(*sync.Mutex).Lock", "status.Errorf",
// or the contract-style name for package-local functions.
func calleeFullName(f *ssa.Function) string {
	if o := f.Origin(); o != nil {
		f = o
	}
	if f.Pkg != nil && f.Pkg.Pkg.Path() == pkgPath || f.Parent() != nil && isLocal(f.Parent()) {
		return FuncName(f)
	}
	if recv := f.Signature.Recv(); recv != nil {
		t := recv.Type()
		ptr := ""
		if pt, ok := t.(*types.Pointer); ok {
			t = pt.Elem()
			ptr = "*"
		}
		return "(" + ptr + namedKey(t) + ")." + f.Name()
	}
	if f.Pkg != nil {
		n := f.Name()
		if i := strings.Index(n, "["); i >= 0 {
			n = n[:i]
		}
		return f.Pkg.Pkg.Name() + "." + n
	}
	// synthetic wrappers ($bound, $thunk) and instantiations without package
	return f.String()
}

func isLocal(f *ssa.Function) bool {
	for f.Parent() != nil {
		f = f.Parent()
	}
	if o := f.Origin(); o != nil {
		f = o
	}
	return f.Pkg != nil && f.Pkg.Pkg.Path() == pkgPath
}

// call executes a call instruction. Returns true if it forked and continued.
func (e *Exec) call(st *State, instr ssa.Instruction, cc *ssa.CallCommon, b *ssa.BasicBlock, idx int) bool {
	fr := st.top()
	var args []Val
	var fnv Val
	if cc.IsInvoke() {
		fnv = e.val(st, cc.Value)
	} else {
		fnv = e.val(st, cc.Value)
	}
	for _, a := range cc.Args {
		args = append(args, e.val(st, a))
	}
	resVal, _ := instr.(ssa.Value)
	if _, isBuiltin := cc.Value.(*ssa.Builtin); !isBuiltin || cc.IsInvoke() {
		e.interfere(st)
	}
	e.atAnchor(st, instr, args, &fnv)
	if st.dead {
		return true
	}
	return e.dispatch(st, instr, cc, fnv, args, func(st *State, res Val) {
		if resVal != nil {
			res.Typ = resVal.Type()
			st.top().env[resVal] = res
		}
		e.afterAnchor(st, instr, args, res)
		e.continueAfter(st, b, idx)
	}, fr)
}

// dispatch runs a call and passes each outcome to k. It returns true always
// (control continues through k).
func (e *Exec) dispatch(st *State, instr ssa.Instruction, cc *ssa.CallCommon, fnv Val, args []Val, k func(*State, Val), fr *Frame) bool {
	sig := cc.Signature()
	resT := sig.Results()
	var resType types.Type = resT
	if resT.Len() == 1 {
		resType = resT.At(0).Type()
	}
	if cc.IsInvoke() {
		e.invoke(st, instr, cc, fnv, args, resType, k)
		return true
	}
	switch v := cc.Value.(type) {
	case *ssa.Builtin:
		k(st, e.builtin(st, instr, v, cc, args, resType))
		return true
	case *ssa.Function:
		e.staticCall(st, instr, v, nil, args, resType, k)
		return true
	case *ssa.MakeClosure:
		fn := v.Fn.(*ssa.Function)
		e.staticCall(st, instr, fn, fnv.Clo, args, resType, k)
		return true
	}
	// dynamic function value
	if fnv.Clo != nil {
		e.staticCall(st, instr, fnv.Clo.Fn, fnv.Clo, args, resType, k)
		return true
	}
	if nt, ok := cc.Value.Type().(*types.Named); ok && nt.Obj().Name() == "CancelFunc" && nt.Obj().Pkg() != nil && nt.Obj().Pkg().Path() == "context" {
		// context.CancelFunc: cancels its context (and descendants); idempotent; touches nothing else
		e.nopanic(st, "nilfunc", instr, tNot(tEq(fnv.T[0], "0")))
		e.setCtxCancelled(st, fnv.T[0])
		st.counts["cancel()"]++
		st.events = append(st.events, "cancel()")
		k(st, Val{})
		return true
	}
	if fnv.Prov != "" {
		if fc := e.cs.Funcs["ff:"+fnv.Prov]; fc != nil {
			e.nopanic(st, "nilfunc", instr, tNot(tEq(fnv.T[0], "0")))
			e.contractCall(st, instr, fc, fc.Params, nil, nil, args, resType, "ff:"+fnv.Prov, k)
			return true
		}
		st.note("call through func field %s without funcfield contract: heap havoc", fnv.Prov)
	} else {
		st.note("call of unknown function value in %s: heap havoc", FuncName(fr.fn))
	}
	for _, a := range args {
		e.escapeVal(st, a)
	}
	e.havocAll(st, "dynamic call")
	k(st, e.freshVal("dyn", resType))
	return true
}

// staticCall handles a call whose target function is known.
func (e *Exec) staticCall(st *State, instr ssa.Instruction, fn *ssa.Function, clo *Closure, args []Val, resType types.Type, k func(*State, Val)) {
	orig := fn
	if o := fn.Origin(); o != nil {
		orig = o
	}
	name := calleeFullName(fn)
	// bound method closures / thunks: unwrap to the underlying method
	if fn.Synthetic != "" && strings.HasSuffix(fn.Name(), "$bound") && clo != nil && len(clo.Bindings) == 1 {
		if m := boundTarget(e.prog, fn); m != nil {
			e.staticCall(st, instr, m, nil, append([]Val{clo.Bindings[0]}, args...), resType, k)
			return
		}
	}
	if isLocal(orig) {
		fc := e.cs.Funcs[name]
		// closures, and helper functions that have no contract (none exists on the
		// pinned tree; an extracted helper on a changed tree), are inlined when
		// they are small and loop-free: exact, and keeps the caller's proof going
		small := len(e.loopsOf(orig)) == 0 && (orig.Parent() != nil && len(orig.Blocks) <= 12 || orig.Parent() == nil && len(orig.Blocks) <= 24 && orig.Blocks != nil)
		if (fc != nil && fc.Inline) || (fc == nil && small) {
			if e.inlineDepth < 6 && orig.Blocks != nil {
				e.inline(st, instr, orig, clo, args, k)
				return
			}
		}
		if fc != nil {
			var pnames []string
			for _, p := range orig.Params {
				pnames = append(pnames, p.Name())
			}
			if orig.Signature.Recv() != nil && len(args) > 0 {
				if _, isPtr := orig.Signature.Recv().Type().Underlying().(*types.Pointer); isPtr && !fcAllowsNilRecv(fc) {
					e.nopanic(st, "nilrecv", instr, tNot(tEq(args[0].T[0], "0")))
				}
			}
			e.contractCall(st, instr, fc, pnames, orig, clo, args, resType, name, k)
			return
		}
		st.note("callee %s has neither contract nor inline mark: heap havoc", name)
		for _, a := range args {
			e.escapeVal(st, a)
		}
		e.havocAll(st, "unspecified callee "+name)
		k(st, e.freshVal("res:"+fn.Name(), resType))
		return
	}
	// external function: assumed model
	st.counts["ext:"+fn.Name()]++
	if res, ok := e.external(st, instr, name, fn, args, resType, k); ok {
		if res != nil {
			k(st, *res)
		}
		return
	}
	// unknown external: pure unless it receives references
	refs := false
	for _, a := range args {
		if a.Typ != nil {
			switch under(a.Typ).(type) {
			case *types.Pointer, *types.Map, *types.Signature, *types.Interface, *types.Slice, *types.Chan:
				refs = true
			}
		}
		e.escapeVal(st, a)
	}
	if refs {
		st.note("external %s has no assumed contract: heap havoc", name)
		e.havocAll(st, "external "+name)
	} else {
		st.note("external %s has no assumed contract: result havoc (no reference arguments)", name)
	}
	k(st, e.freshVal("ext:"+fn.Name(), resType))
}

// fcAllowsNilRecv: the method is declared callable on a nil receiver.
func fcAllowsNilRecv(fc *FuncContract) bool {
	for _, e := range fc.Effects {
		if e == "nilrecv-ok" {
			return true
		}
	}
	return false
}

func boundTarget(p *Program, fn *ssa.Function) *ssa.Function {
	// fn is "T.m$bound": find the Call inside its body
	for _, b := range fn.Blocks {
		for _, in := range b.Instrs {
			if c, ok := in.(*ssa.Call); ok {
				if f, ok := c.Call.Value.(*ssa.Function); ok {
					return f
				}
			}
		}
	}
	return nil
}

// inline executes the callee's body in a new frame.
func (e *Exec) inline(st *State, instr ssa.Instruction, fn *ssa.Function, clo *Closure, args []Val, k func(*State, Val)) {
	fr := e.newFrame(fn)
	fr.inlined = true
	for i, p := range fn.Params {
		if i < len(args) {
			fr.params[p.Name()] = args[i]
			fr.params[fmt.Sprintf("param%d", i)] = args[i]
			fr.env[p] = args[i]
		}
	}
	if clo != nil {
		for i, fv := range fn.FreeVars {
			if i < len(clo.Bindings) {
				fr.freeV[fv.Name()] = clo.Bindings[i]
				fr.env[fv] = clo.Bindings[i]
			}
		}
	}
	depth := len(st.frames)
	fr.callSiteRet = func(st2 *State, res Val) {
		e.inlineDepth--
		k(st2, res)
		e.inlineDepth++
	}
	st.frames = append(st.frames, fr)
	e.inlineDepth++
	e.execBlock(st, fn.Blocks[0], nil)
	e.inlineDepth--
	_ = depth
}

// contractCall applies a callee's contract at a call site.
func (e *Exec) contractCall(st *State, instr ssa.Instruction, fc *FuncContract, pnames []string, fn *ssa.Function, clo *Closure, args []Val, resType types.Type, name string, k func(*State, Val)) {
	scope := map[string]Val{}
	for i, a := range args {
		scope[fmt.Sprintf("arg%d", i)] = a
		if i < len(pnames) && pnames[i] != "" && pnames[i] != "_" {
			scope[pnames[i]] = a
		}
	}
	if clo != nil && fn != nil {
		for i, fv := range fn.FreeVars {
			if i < len(clo.Bindings) {
				// contract names a captured variable by its value
				b := clo.Bindings[i]
				if pt, ok := fv.Type().(*types.Pointer); ok {
					scope[fv.Name()] = e.loadFrom(st, e.derefLoc(st, b, pt.Elem()), false)
				}
			}
		}
	}
	pos := instr.Pos()
	anchor := e.callAnchor(st.top(), instr)
	// 1. preconditions
	for i, c := range fc.Requires {
		ctx := &evalCtx{st: st, scope: scope}
		g, err := e.evalBool(ctx, c.Expr)
		if err != nil {
			e.contractError(fc, c, err)
			continue
		}
		e.oblige(st, "pre@call", fmt.Sprintf("%s/%s", anchor, clauseID(c, i)), c.Props, "requires "+c.Text+" of "+name, g, pos)
		st.assume(g)
	}
	// 2. interference on monitors the callee enters
	var entered []Val
	for i, le := range fc.Locks {
		ctx := &evalCtx{st: st, scope: scope}
		lv, err := e.evalTop(ctx, le, nil)
		if err != nil {
			assignsAll := false
			for _, as := range fc.Assigns {
				assignsAll = assignsAll || as.Field == "**"
			}
			if !(assignsAll && strings.Contains(err.Error(), "unknown identifier")) {
				e.contractError(fc, &Clause{Text: fc.LockTexts[i], Line: fc.Line}, err)
			}
			continue // a monitor named through a callee local: covered by the callee's 'assigns *'
		}
		if lv.Sub == nil {
			continue
		}
		e.checkLockDeclared(st, instr, lv)
		if h := st.holds(lv.T[0]); h != nil {
			if !h.Read {
				e.oblige(st, "lockorder", fmt.Sprintf("%s/selfdeadlock:%s", anchor, fc.LockTexts[i]), nil, "callee "+name+" acquires a lock the caller holds", "false", pos)
			}
			continue
		}
		e.monitorInterference(st, lv)
		entered = append(entered, lv)
		st.events = append(st.events, "lock:"+lv.Sub.Owner+"."+lv.Sub.Path)
		st.counts["acquired"]++
	}
	// monitors of objects the caller cannot name: forget the guarded fields of every object of that type
	for _, al := range fc.AnyLocks {
		of := strings.SplitN(al, ".", 2)
		if len(of) != 2 {
			continue
		}
		if e.fc != nil {
			declared := false
			for _, mine := range e.fc.AnyLocks {
				declared = declared || mine == al
			}
			for _, as := range e.fc.Assigns {
				declared = declared || as.Field == "**"
			}
			if !declared {
				e.oblige(st, "locks-declared", fmt.Sprintf("any:%s@%s", al, anchor), nil, "callee "+name+" enters a monitor of an unnamed "+of[0]+"; the caller's locks clause must announce 'any "+al+"'", "false", pos)
			}
		}
		t := e.ownerType(of[0])
		if t == nil {
			continue
		}
		su, ok := t.Underlying().(*types.Struct)
		if !ok {
			continue
		}
		st.quiet++
		for _, gf := range e.guardedFields(of[0], of[1]) {
			for i := 0; i < su.NumFields(); i++ {
				if su.Field(i).Name() != gf {
					continue
				}
				for _, l := range shape(su.Field(i).Type()) {
					e.havocKey(st, leafKey(fieldKey(of[0], gf), l), arr(SInt, l.Sort))
				}
			}
		}
		st.quiet--
		st.events = append(st.events, "lock:"+al)
		st.counts["acquired"]++
	}
	// 3. frame
	pre := e.snapHeap(st)
	for _, lv := range entered {
		// the callee may change whatever the monitors it enters guard
		ov, t := e.objVal(lv.Sub.Owner, lv.Sub.Obj)
		if t == nil {
			continue
		}
		st.quiet++
		for _, f := range e.guardedFields(lv.Sub.Owner, lv.Sub.Path) {
			e.havocField(st, ov, f, false)
		}
		st.quiet--
		e.assumeInvariants(st, lv.Sub.Owner, lv.Sub.Path, ov, t)
	}
	if !fc.HasAssign {
		st.note("callee %s has no assigns clause: heap havoc", name)
		e.havocAll(st, "callee without frame "+name)
	} else {
		for _, as := range fc.Assigns {
			e.applyAssign(st, fc, as, scope)
		}
	}
	for _, a := range args {
		e.escapeVal(st, a)
	}
	// 4. results and postconditions
	res := e.freshVal("res:"+shortName(name), resType)
	e.bindResults(scope, res, resType, fn)
	for _, l := range fc.Lets {
		ctx := &evalCtx{st: st, scope: scope, oldHeap: pre}
		if v, err := e.evalTop(ctx, l.E, nil); err == nil {
			scope[l.Name] = v
		} else {
			e.contractError(fc, &Clause{Text: "let " + l.Name, Line: fc.Line}, err)
		}
	}
	// well-formedness of results by type
	e.assumeResultWF(st, res, resType)
	internal := map[string]bool{}
	for _, g := range fc.Ghosts {
		internal[g.Name] = true
	}
	for _, c := range fc.Ensures {
		if mentionsInternal(c.Expr, internal) {
			continue // postconditions over the callee's ghost state / event counters are proved there, not exported
		}
		if freshTarget(c.Expr) != "" {
			if rv, ok := scope[freshTarget(c.Expr)]; ok && len(rv.T) >= 1 {
				r := e.allocRef(st, "callee")
				st.assume(tEq(rv.T[len(rv.T)-1], r))
				if len(rv.T) == 2 {
					st.assume(tNot(tEq(rv.T[0], "0")))
				}
				continue
			}
		}
		ctx := &evalCtx{st: st, scope: scope, oldHeap: pre}
		g, err := e.evalBool(ctx, c.Expr)
		if err != nil {
			if !strings.Contains(err.Error(), "unknown identifier") {
				e.contractError(fc, c, err)
			}
			continue // clauses over the callee's locals are proved there, not exported
		}
		st.assume(g)
	}
	for _, eff := range fc.Effects {
		if strings.HasPrefix(eff, "event:") {
			st.counts[strings.TrimPrefix(eff, "event:")]++
		}
	}
	if st.counts["stable-dirty"] > 0 && strings.HasPrefix(name, "if:") {
		// a primitive termination event: the facts it must imply have to hold already
		st.counts["stable-dirty"] = 0
		e.stableInvs(st, true, instr, "after@"+anchor)
	} else {
		st.counts["stable-dirty"] = 0
		e.stableInvs(st, false, instr, "")
	}
	st.calls[shortName(name)] = callRecord{Args: args, Results: res}
	st.counts["call:"+shortName(name)]++
	st.events = append(st.events, "call:"+shortName(name))
	k(st, res)
}

func (e *Exec) assumeResultWF(st *State, res Val, t types.Type) {
	if t == nil {
		return
	}
	if tt, ok := t.(*types.Tuple); ok {
		off := 0
		for i := 0; i < tt.Len(); i++ {
			n := len(shape(tt.At(i).Type()))
			if off+n <= len(res.T) {
				e.assumeResultWF(st, Val{T: res.T[off : off+n]}, tt.At(i).Type())
			}
			off += n
		}
		return
	}
	switch under(t).(type) {
	case *types.Interface:
		if len(res.T) == 2 && !isTypeParam(t) {
			st.assume(app(">=", res.T[0], "0"))
			st.assume(tImp(tEq(res.T[0], "0"), tEq(res.T[1], "0")))
			if isProtoOneof(t) {
				st.assume(tImp(tNot(tEq(res.T[0], "0")), tNot(tEq(res.T[1], "0"))))
			}
		}
	case *types.Slice:
		if len(res.T) == 4 {
			st.assume(app("bvule", res.T[2], res.T[3]))
			st.assume(app("bvule", res.T[3], bvLitI(1<<40, 64)))
			st.assume(app("bvule", res.T[1], bvLitI(1<<40, 64)))
			st.assume(tImp(tEq(res.T[0], "0"), tEq(res.T[3], bvLitI(0, 64))))
		}
	case *types.Pointer, *types.Map, *types.Chan, *types.Signature:
		if len(res.T) == 1 {
			st.assume(app(">=", res.T[0], "0"))
		}
	}
}

// mentionsInternal: the expression refers to a ghost local of the callee or to a path event counter.
func mentionsInternal(x Expr, ghosts map[string]bool) bool {
	switch x := x.(type) {
	case *EIdent:
		return ghosts[x.Name]
	case *EUn:
		return mentionsInternal(x.X, ghosts)
	case *EBin:
		return mentionsInternal(x.L, ghosts) || mentionsInternal(x.R, ghosts)
	case *ESel:
		return mentionsInternal(x.X, ghosts)
	case *EIndex:
		return mentionsInternal(x.X, ghosts) || mentionsInternal(x.I, ghosts)
	case *ESlice:
		return mentionsInternal(x.X, ghosts) || (x.Lo != nil && mentionsInternal(x.Lo, ghosts)) || (x.Hi != nil && mentionsInternal(x.Hi, ghosts))
	case *ECall:
		if x.F == "count" || x.F == "won" || x.F == "held" {
			return true
		}
		for _, a := range x.Args {
			if mentionsInternal(a, ghosts) {
				return true
			}
		}
	case *EIs:
		return mentionsInternal(x.X, ghosts)
	case *EForall:
		return mentionsInternal(x.Body, ghosts) || (x.In != nil && mentionsInternal(x.In, ghosts))
	}
	return false
}

func shortName(n string) string {
	if i := strings.LastIndex(n, "."); i >= 0 {
		return n[i+1:]
	}
	return n
}

func freshTarget(x Expr) string {
	if c, ok := x.(*ECall); ok && c.F == "fresh" && len(c.Args) == 1 {
		if id, ok := c.Args[0].(*EIdent); ok {
			return id.Name
		}
	}
	return ""
}

func clauseID(c *Clause, i int) string {
	if c.Label != "" {
		return c.Label
	}
	return fmt.Sprintf("%s#%d", c.Kind, i+1)
}

func (e *Exec) bindResults(scope map[string]Val, res Val, resType types.Type, fn *ssa.Function) {
	scope["result"] = res
	if tt, ok := resType.(*types.Tuple); ok {
		off := 0
		for i := 0; i < tt.Len(); i++ {
			n := len(shape(tt.At(i).Type()))
			v := Val{T: res.T[off : off+n], Typ: tt.At(i).Type()}
			scope[fmt.Sprintf("result%d", i)] = v
			if nm := tt.At(i).Name(); nm != "" && nm != "_" {
				scope[nm] = v
			}
			off += n
		}
	} else {
		scope["result0"] = res
		if fn != nil {
			if r := fn.Signature.Results(); r.Len() == 1 && r.At(0).Name() != "" {
				scope[r.At(0).Name()] = res
			}
		}
	}
}

var contractErrors []string

// contractErrInfo classifies each contract error by what else depends on the
// clause that could not be evaluated: "pure" (an assertion or postcondition:
// nothing), "ghost:<name>" (a ghost update: whatever reads that ghost), or
// "basis" (an invariant, precondition, assumption, let, frame or lock entry:
// potentially every other obligation of the function).
type contractErrRec struct {
	Func, Class, Msg string
}

var contractErrInfo []contractErrRec

func (e *Exec) contractError(fc *FuncContract, c *Clause, err error) {
	msg := fmt.Sprintf("contract error: %s line %d (%s): %v [while verifying %s]", fc.Name, c.Line, c.Text, err, e.fname)
	for _, m := range contractErrors {
		if m == msg {
			return
		}
	}
	contractErrors = append(contractErrors, msg)
	class := "basis"
	switch {
	case c.Kind == "assert" || c.Kind == "ensures":
		class = "pure"
	case c.Kind == "ghost" && c.Ghost != "":
		class = "ghost:" + c.Ghost
	}
	contractErrInfo = append(contractErrInfo, contractErrRec{Func: e.fname, Class: class, Msg: msg})
}

func (e *Exec) callAnchor(fr *Frame, instr ssa.Instruction) string {
	id, ok := fr.ordinals[instr]
	pre := ""
	if fr.fn != e.fn {
		pre = FuncName(fr.fn) + ":"
	}
	if !ok {
		return pre + "call:?"
	}
	if id.target != "" {
		return fmt.Sprintf("%s%s:%s#%d", pre, id.kind, id.target, id.ord)
	}
	return fmt.Sprintf("%s%s#%d", pre, id.kind, id.ord)
}

// applyAssign havocs what a callee may modify.
func (e *Exec) applyAssign(st *State, fc *FuncContract, as AssignSpec, scope map[string]Val) {
	if as.Field == "**" {
		e.havocAll(st, "assigns *")
		return
	}
	if as.Obj == nil {
		// *.field : whole array, every type that has such a field is affected
		for _, k := range sortedKeys(st.heap) {
			if strings.HasSuffix(strings.SplitN(k, "#", 2)[0], "."+as.Field) {
				delete(st.heap, k)
				st.heap[k] = e.fresh("HV:"+k, e.decls[e.entryArrName(k)])
			}
		}
		st.note("whole-array assigns *.%s", as.Field)
		return
	}
	ctx := &evalCtx{st: st, scope: scope}
	ov, err := e.evalTop(ctx, as.Obj, nil)
	if err != nil {
		e.contractError(fc, &Clause{Text: "assigns " + as.Text, Line: fc.Line}, err)
		e.havocAll(st, "bad assigns")
		return
	}
	if strings.HasPrefix(as.Field, "@") {
		e.havocAbstract(st, as.Field[1:], ov)
		return
	}
	if ov.Typ == nil {
		e.havocAll(st, "untyped assigns")
		return
	}
	e.havocField(st, ov, as.Field, false)
}

// havocAbstract forgets the abstract state behind a list / map / channel / cell reference.
func (e *Exec) havocAbstract(st *State, kind string, ov Val) {
	ref := ov.T[0]
	hv := func(key, sort, elemSort string) {
		a := e.curArr(st, key, sort)
		st.wrote(key, ref)
		e.setArr(st, key, sort, app("store", a, ref, e.fresh("hv:"+key, elemSort)))
		st.impure[key] = true
	}
	switch kind {
	case "list":
		hv("list#lo", arr(SInt, SInt), SInt)
		hv("list#hi", arr(SInt, SInt), SInt)
		hv("list#sum", arr(SInt, SBV(64)), SBV(64))
		hv("list#elems", arr(SInt, arr(SInt, SInt)), arr(SInt, SInt))
		hv("list#tags", arr(SInt, arr(SInt, SInt)), arr(SInt, SInt))
		e.assumeListWF(st, ref)
	case "map":
		if mt, ok := ov.Typ.Underlying().(*types.Map); ok {
			ks := e.mapKeySort(mt)
			hv(mapKeyName(mt)+"#present", arr(SInt, arr(ks, SBool)), arr(ks, SBool))
			for _, l := range shape(mt.Elem()) {
				hv(leafKey(mapKeyName(mt)+"#val", l), arr(SInt, arr(ks, l.Sort)), arr(ks, l.Sort))
			}
			st.counts["mapgen"]++
		}
	case "chan":
		// closed-ness is monotone: a closed channel stays closed
		a := e.curArr(st, "chan#closed", arr(SInt, SBool))
		st.wrote("chan#closed", ref)
		nv := e.fresh("hv:closed", SBool)
		st.assume(tImp(app("select", a, ref), nv))
		e.setArr(st, "chan#closed", arr(SInt, SBool), app("store", a, ref, nv))
	case "cell":
		if pt, ok := ov.Typ.Underlying().(*types.Pointer); ok {
			e.havocLoc(st, e.derefLoc(st, ov, pt.Elem()), false)
		}
	case "rcancelled", "rclosed":
		key := "recv#" + strings.TrimPrefix(kind, "r")
		r := ov.T[len(ov.T)-1]
		a := e.curArr(st, key, arr(SInt, SBool))
		st.wrote(key, r)
		nv := e.fresh("hv:"+kind, SBool)
		st.assume(tImp(app("select", a, r), nv)) // monotone
		e.setArr(st, key, arr(SInt, SBool), app("store", a, r, nv))
		st.counts["stable-dirty"]++
	case "cancel":
		// the cancel function may have been called (monotone)
		a := e.curArr(st, "ctx#cancelled", arr(SInt, SBool))
		st.wrote("ctx#cancelled", ref)
		nv := e.fresh("hv:cancelled", SBool)
		st.assume(tImp(app("select", a, ref), nv))
		e.setArr(st, "ctx#cancelled", arr(SInt, SBool), app("store", a, ref, nv))
	case "elems":
		if slt, ok := under(ov.Typ).(*types.Slice); ok {
			for _, l := range shape(slt.Elem()) {
				k := leafKey(elemKey(slt.Elem()), l)
				srt := arr(SInt, arr(SBV(64), l.Sort))
				a := e.curArr(st, k, srt)
				e.setArr(st, k, srt, app("store", a, ref, e.fresh("hv:"+k, arr(SBV(64), l.Sort))))
			}
		}
	}
}

func (e *Exec) entryArrName(k string) string { return sym("H0:" + k) }

// havocField havocs obj.field (field "*" = every field) including the
// abstract state hanging off maps, lists and channels stored there.
func (e *Exec) havocField(st *State, obj Val, field string, rebaseOld bool) {
	t := obj.Typ
	if p, ok := t.Underlying().(*types.Pointer); ok {
		t = p.Elem()
	}
	su, ok := t.Underlying().(*types.Struct)
	if !ok {
		// pointer to non-struct cell
		if p, ok := obj.Typ.Underlying().(*types.Pointer); ok {
			e.havocLoc(st, e.derefLoc(st, obj, p.Elem()), rebaseOld)
		}
		return
	}
	for i := 0; i < su.NumFields(); i++ {
		f := su.Field(i)
		if field != "*" && f.Name() != field {
			continue
		}
		pv, _ := e.fieldLoc(st, obj, t, i)
		if pv.Loc != nil {
			e.havocLoc(st, pv.Loc, rebaseOld)
			continue
		}
		// embedded struct / atomic
		if isOpaqueStruct(f.Type()) {
			if strings.HasPrefix(namedKey(f.Type()), "atomic.") {
				e.havocLoc(st, e.atomicLoc(pv.T[0], f.Type()), rebaseOld)
			}
			continue
		}
		pv.Typ = types.NewPointer(f.Type())
		e.havocField(st, pv, "*", rebaseOld)
	}
}

// ---------------- builtins ----------------

func (e *Exec) builtin(st *State, instr ssa.Instruction, b *ssa.Builtin, cc *ssa.CallCommon, args []Val, resType types.Type) Val {
	switch b.Name() {
	case "len":
		a := args[0]
		switch t := under(cc.Args[0].Type()).(type) {
		case *types.Slice:
			return Val{T: []string{a.T[2]}, Typ: resType}
		case *types.Basic:
			return Val{T: []string{e.strLen(a.T[0])}, Typ: resType}
		case *types.Map:
			l := app(e.mapLenFn(), a.T[0], intLit(int64(st.counts["mapgen"])))
			st.assume(app("bvsge", l, bvLitI(0, 64)))
			st.assume(tImp(tEq(a.T[0], "0"), tEq(l, bvLitI(0, 64))))
			return Val{T: []string{l}, Typ: resType}
		case *types.Chan:
			return e.freshVal("chanlen", resType)
		default:
			_ = t
		}
	case "cap":
		if _, ok := under(cc.Args[0].Type()).(*types.Slice); ok {
			return Val{T: []string{args[0].T[3]}, Typ: resType}
		}
	case "append":
		return e.doAppend(st, instr, cc, args, resType)
	case "copy":
		st.note("copy(): destination contents havoc'd")
		return e.freshVal("copy", resType)
	case "delete":
		mt := cc.Args[0].Type().Underlying().(*types.Map)
		e.checkMapAccess(st, cc.Args[0], true, instr)
		m := args[0].T[0]
		// delete on a nil map is a no-op
		s2key := mapKeyName(mt) + "#present"
		s := arr(SInt, arr(e.mapKeySort(mt), SBool))
		a := e.curArr(st, s2key, s)
		kk := e.mapKeyTerm(mt, args[1])
		st.wrote(s2key, m)
		e.setArr(st, s2key, s, tIte(tEq(m, "0"), a, app("store", a, m, app("store", app("select", a, m), kk, "false"))))
		st.counts["mapgen"]++
		return Val{}
	case "close":
		e.chanClose(st, instr, args[0])
		return Val{}
	case "min", "max":
		if len(args) == 2 && isIntType(resType) {
			op := "bvslt"
			if isUnsigned(resType) {
				op = "bvult"
			}
			c := app(op, args[0].T[0], args[1].T[0])
			if b.Name() == "max" {
				c = tNot(c)
			}
			return Val{T: []string{tIte(c, args[0].T[0], args[1].T[0])}, Typ: resType}
		}
	case "print", "println":
		return Val{}
	case "recover":
		return e.zeroVal(resType)
	case "ssa:wrapnilchk":
		e.nopanic(st, "nilderef", instr, tNot(tEq(args[0].T[0], "0")))
		return args[0]
	}
	st.note("unmodelled builtin %s", b.Name())
	if resType == nil {
		return Val{}
	}
	return e.freshVal("builtin", resType)
}

// append: new backing array unless we know nothing; contents are described by
// the abstract content function so that byte-level equalities survive.
func (e *Exec) doAppend(st *State, instr ssa.Instruction, cc *ssa.CallCommon, args []Val, resType types.Type) Val {
	s, t := args[0], args[1]
	slT := under(resType).(*types.Slice)
	var tlen string
	if isStringType(cc.Args[1].Type()) {
		tlen = e.strLen(t.T[0])
	} else {
		tlen = t.T[2]
	}
	newLen := app("bvadd", s.T[2], tlen)
	fits := app("bvule", newLen, s.T[3])
	// in place when capacity suffices, otherwise a fresh array
	nb := e.allocRef(st, "append")
	// name the result components so that quantifier patterns stay simple
	base := e.fresh("app.base", SInt)
	off := e.fresh("app.off", SBV(64))
	st.assume(tEq(base, tIte(fits, s.T[0], nb)))
	st.assume(tEq(off, tIte(fits, s.T[1], bvLitI(0, 64))))
	ncap := e.fresh("cap", SBV(64))
	st.assume(app("bvuge", ncap, newLen))
	st.assume(app("bvule", ncap, bvLitI(1<<41, 64)))
	st.assume(tImp(fits, tEq(ncap, s.T[3])))
	res := Val{T: []string{base, off, newLen, ncap}, Typ: resType}
	// element-wise knowledge for single-element appends (the only form the
	// package uses besides byte concatenation)
	if !isStringType(cc.Args[1].Type()) {
		if ma, ok := cc.Args[1].(*ssa.Slice); ok {
			_ = ma
		}
	}
	et := slT.Elem()
	c := e.contentOf(st, s, et)
	var c2 string
	if isStringType(cc.Args[1].Type()) {
		c2 = app(e.fun("str_bytes", []string{SInt}, SInt), t.T[0])
	} else {
		c2 = e.contentOf(st, t, et)
	}
	if n, ok := singleElem(cc.Args[1]); ok {
		// append(s, x): write x behind the old elements, which stay where they are
		// (or are copied when a new array is allocated)
		idx := app("bvadd", off, s.T[2])
		ev := e.val(st, n)
		e.copyPrefixAssumption(st, s, base, off, et)
		e.storeTo(st, e.elemLoc(base, idx, et), ev)
	} else if !isStringType(cc.Args[1].Type()) && !isByteLike(et) {
		// append(s, t...): element-wise definition of the result row (memmove semantics:
		// sources are read from the pre-state, so overlapping in-place moves are exact)
		e.appendRows(st, s, t, base, off, et)
	}
	st.assume(tEq(e.contentOf(st, res, et), app(e.fun("cat", []string{SInt, SInt}, SInt), c, c2)))
	return res
}

func isByteLike(t types.Type) bool {
	b, ok := t.Underlying().(*types.Basic)
	return ok && (b.Kind() == types.Uint8 || b.Kind() == types.Int8)
}

// appendRows defines the element arrays after append(s, t...).
func (e *Exec) appendRows(st *State, s, t Val, base, off string, et types.Type) {
	for _, l := range shape(et) {
		k := leafKey(elemKey(et), l)
		srt := arr(SInt, arr(SBV(64), l.Sort))
		a := e.curArr(st, k, srt)
		nrow := e.fresh("row:"+k, arr(SBV(64), l.Sort))
		j := e.freshName("j")
		start := app("bvadd", off, s.T[2])                 // first appended position
		end := app("bvadd", start, t.T[2])                 // one past the last appended position
		fromT := app("select", app("select", a, t.T[0]), app("bvadd", t.T[1], app("bvsub", j, start)))
		fromS := app("select", app("select", a, s.T[0]), app("bvadd", s.T[1], app("bvsub", j, off)))
		oldRow := app("select", app("select", a, base), j)
		val := tIte(tAnd(app("bvule", start, j), app("bvult", j, end)), fromT,
			tIte(tAnd(app("bvule", off, j), app("bvult", j, start)), fromS, oldRow))
		st.assume(fmt.Sprintf("(forall ((%s (_ BitVec 64))) (! (= (select %s %s) %s) :pattern ((select %s %s))))", j, nrow, j, val, nrow, j))
		st.wrote(k, base)
		e.setArr(st, k, srt, app("store", a, base, nrow))
	}
	st.counts["elemgen:"+typeKey(et)]++
}

// singleElem recognises append(s, x) which go/ssa lowers to a 1-element array slice.
func singleElem(v ssa.Value) (ssa.Value, bool) {
	sl, ok := v.(*ssa.Slice)
	if !ok {
		return nil, false
	}
	al, ok := sl.X.(*ssa.Alloc)
	if !ok {
		return nil, false
	}
	at, ok := al.Type().(*types.Pointer).Elem().Underlying().(*types.Array)
	if !ok || at.Len() != 1 {
		return nil, false
	}
	// find the store into element 0
	for _, ref := range *al.Referrers() {
		if ia, ok := ref.(*ssa.IndexAddr); ok {
			for _, r2 := range *ia.Referrers() {
				if s, ok := r2.(*ssa.Store); ok {
					return s.Val, true
				}
			}
		}
	}
	return nil, false
}

// copyPrefixAssumption states, pointwise via a skolem-free universally
// quantified axiom, that the first len(s) elements of the result equal s's.
func (e *Exec) copyPrefixAssumption(st *State, s Val, base, off string, et types.Type) {
	for _, l := range shape(et) {
		k := leafKey(elemKey(et), l)
		sort := arr(SInt, arr(SBV(64), l.Sort))
		a := e.curArr(st, k, sort)
		j := e.freshName("j")
		q := fmt.Sprintf("(forall ((%s (_ BitVec 64))) (! (=> (bvult %s %s) (= (select (select %s %s) (bvadd %s %s)) (select (select %s %s) (bvadd %s %s)))) :pattern ((select (select %s %s) (bvadd %s %s)))))",
			j, j, s.T[2], a, base, off, j, a, s.T[0], s.T[1], j, a, base, off, j)
		st.assume(q)
	}
}

func (e *Exec) havocElems(st *State, base string, et types.Type) {
	// a freshly allocated array has unknown (zero, but we do not need that) contents; nothing to do:
	// entry arrays are unconstrained at fresh references.
}

// contentOf is the abstract byte/element content of a slice in the current heap.
func (e *Exec) contentOf(st *State, s Val, et types.Type) string {
	f := e.fun("content", []string{SInt, SInt, SBV(64), SBV(64)}, SInt)
	gen := intLit(int64(st.counts["elemgen:"+typeKey(et)]))
	return app(f, gen, s.T[0], s.T[1], s.T[2])
}

// ---------------- anchors ----------------

func (e *Exec) anchorMatches(fr *Frame, instr ssa.Instruction, a *Anchor) bool {
	id, ok := fr.ordinals[instr]
	if !ok {
		return false
	}
	kind := a.Kind
	if kind == "aftercall" {
		kind = "call"
	}
	if id.kind != kind {
		return false
	}
	if a.Target != "" && a.Target != id.target {
		return false
	}
	return a.Ord == 0 || a.Ord == id.ord
}

func (e *Exec) anchorScope(st *State, args []Val, fnv *Val) map[string]Val {
	scope := map[string]Val{}
	if e.retVal != nil {
		var resType types.Type = e.fn.Signature.Results()
		if e.fn.Signature.Results().Len() == 1 {
			resType = e.fn.Signature.Results().At(0).Type()
		}
		rv := *e.retVal
		rv.Typ = resType
		e.bindResults(scope, rv, resType, e.fn)
	}
	for i, a := range args {
		scope[fmt.Sprintf("arg%d", i)] = a
	}
	if fnv != nil {
		scope["recv"] = *fnv
	}
	if e.selBlocking != "" {
		scope["blocking"] = Val{T: []string{e.selBlocking}, Typ: types.Typ[types.Bool]}
	}
	return scope
}

// atAnchor evaluates 'at <anchor>' asserts and ghost updates before instr.
// contractOfFrame: the contract whose at-clauses and loop invariants govern a
// frame: its own, or (for an inlined closure without one) the enclosing
// function under verification.
func (e *Exec) contractOfFrame(fr *Frame) *FuncContract {
	if fr.fn == e.fn {
		return e.fc
	}
	if fc := e.cs.Funcs[FuncName(fr.fn)]; fc != nil {
		return fc
	}
	for p := fr.fn.Parent(); p != nil; p = p.Parent() {
		if p == e.fn {
			return e.fc
		}
	}
	return nil
}

func (e *Exec) atAnchor(st *State, instr ssa.Instruction, args []Val, fnv *Val) {
	fr := st.top()
	fc := e.contractOfFrame(fr)
	if fc == nil {
		return
	}
	for i, c := range fc.At {
		if c.Anchor.Kind == "aftercall" || !e.anchorMatches(fr, instr, c.Anchor) {
			continue
		}
		e.runAtClause(st, fc, c, i, instr, e.anchorScope(st, args, fnv))
	}
}

func (e *Exec) afterAnchor(st *State, instr ssa.Instruction, args []Val, res Val) {
	fr := st.top()
	fc := e.contractOfFrame(fr)
	if fc == nil {
		return
	}
	for i, c := range fc.At {
		if c.Anchor.Kind != "aftercall" || !e.anchorMatches(fr, instr, c.Anchor) {
			continue
		}
		scope := e.anchorScope(st, args, nil)
		scope["result"] = res
		if v, ok := instr.(ssa.Value); ok && v.Type() != nil {
			e.bindResults(scope, res, v.Type(), nil)
		}
		e.runAtClause(st, fc, c, i, instr, scope)
	}
}

func (e *Exec) runAtClause(st *State, fc *FuncContract, c *Clause, i int, instr ssa.Instruction, scope map[string]Val) {
	fr := st.top()
	if e.atHits == nil {
		e.atHits = map[*Clause]int{}
	}
	e.atHits[c]++
	ctx := &evalCtx{st: st, scope: scope, fr: fr, entryScope: e.entryParams()}
	switch c.Kind {
	case "assert":
		g, err := e.evalBool(ctx, c.Expr)
		if err != nil {
			e.contractError(fc, c, err)
			return
		}
		id := fr.ordinals[instr]
		anchor := fmt.Sprintf("%s#%d/%s", joinNonEmpty(":", id.kind, id.target), id.ord, clauseID(c, i))
		if fr.fn != e.fn {
			anchor = FuncName(fr.fn) + ":" + anchor
		}
		e.cover(st, anchor, c.Props, c.Text)
		e.oblige(st, "assert", anchor, c.Props, c.Text, g, instr.Pos())
		// A check for property P uses as lemmas only the assertions it
		// proves itself (those tagged P, and untagged helper assertions):
		// otherwise a failing assertion of another property would mask
		// P's own assertions further down the same path.
		// An assertion that reads a ghost variable no update has reached on
		// this path (its anchor may be gone on a changed tree) is checked but
		// not used as a lemma: assuming it could make the rest of the path
		// infeasible and so hide the assertions that follow.
		if p := e.cs.AssumeProp; (p == "" || len(c.Props) == 0 || contains(c.Props, p)) && !e.readsUnsetGhost(st, fc, c) {
			st.assume(g)
		}
	case "assume":
		g, err := e.evalBool(ctx, c.Expr)
		if err != nil {
			e.contractError(fc, c, err)
			return
		}
		st.assume(g)
		st.note("assume at %s: %s", c.Anchor, c.Text)
	case "ghost":
		cur, ok := st.ghost[c.Ghost]
		var want types.Type
		if ok {
			want = cur.Typ
		}
		v, err := e.evalTop(ctx, c.Expr, want)
		if err != nil {
			e.contractError(fc, c, err)
			return
		}
		if ok && len(v.T) == len(cur.T) {
			v.Typ = cur.Typ
		}
		st.ghost[c.Ghost] = v
		st.ghost["$set:"+c.Ghost] = Val{T: []string{"true"}}
	}
}

func (e *Exec) entryParams() map[string]Val {
	if e.entry == nil {
		return nil
	}
	return e.entry.frames[0].params
}

var _ = token.NoPos

// readsUnsetGhost: the clause mentions a ghost variable of the contract that
// has an anchored update somewhere in the contract but has not been updated
// on this path yet.
func (e *Exec) readsUnsetGhost(st *State, fc *FuncContract, c *Clause) bool {
	if fc == nil {
		return false
	}
	for _, g := range fc.Ghosts {
		if _, set := st.ghost["$set:"+g.Name]; set {
			continue
		}
		updated := false
		for _, a := range fc.At {
			if a.Kind == "ghost" && a.Ghost == g.Name {
				updated = true
			}
		}
		if !updated {
			continue
		}
		if identIn(c.Text, g.Name) {
			return true
		}
	}
	return false
}

func identIn(text, name string) bool {
	for i := 0; i+len(name) <= len(text); i++ {
		if text[i:i+len(name)] != name {
			continue
		}
		before := i == 0 || !isIdentByte(text[i-1]) && text[i-1] != '.'
		after := i+len(name) == len(text) || !isIdentByte(text[i+len(name)])
		if before && after {
			return true
		}
	}
	return false
}

func isIdentByte(b byte) bool {
	return b == '_' || b >= '0' && b <= '9' || b >= 'a' && b <= 'z' || b >= 'A' && b <= 'Z'
}
