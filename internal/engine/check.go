package engine

import (
	"regexp"
	"go/types"
	"encoding/json"
	"fmt"
	"os"
	"path/filepath"
	"sort"
	"strconv"
	"strings"
	"sync"
	"time"

	"golang.org/x/tools/go/ssa"
)

const (
	repoDir  = "/repo"
	verifDir = "/verif"
)

type ObligationResult struct {
	Name      string   `json:"name"`
	Kind      string   `json:"kind"`
	Function  string   `json:"function"`
	Pos       string   `json:"pos"`
	Props     []string `json:"props,omitempty"`
	Clause    string   `json:"clause,omitempty"`
	Instances int      `json:"instances"`
	Trivial   int      `json:"trivially_true_instances"`
	Result    string   `json:"result"` // discharged failed undecided known
	Solver    string   `json:"solver,omitempty"`
	Ms        int64    `json:"ms"`
	Notes     []string `json:"abstractions,omitempty"`
	Reason    string   `json:"reason,omitempty"`
	coverSat  bool
	failing   *Instance
	failRes   SolveResult
	fr        *FuncResult
}

type KnownFindings struct {
	Known []struct {
		Property   string `json:"property"`
		Obligation string `json:"obligation"`
		Witness    string `json:"witness"`
		What       string `json:"what"`
	} `json:"known"`
	Fixed []struct {
		Property string `json:"property"`
		Commit   string `json:"commit"`
		What     string `json:"what"`
	} `json:"fixed"`
}

type Ledger struct {
	PackageFuncs []string                    `json:"package_functions"` // every function of the package on the pinned tree
	Tree        string                       `json:"tree"`
	Functions   map[string]LedgerFunc        `json:"functions"`
	Obligations map[string]map[string]string `json:"obligations"` // property -> obligation -> expected
}

type LedgerFunc struct {
	Abstractions []string `json:"abstractions"`
	// signature (parameter and result types) on the pinned
	// tree: function literals are named by ordinal (parent$k), and an edit that
	// adds or removes a literal makes a contract bind to a different one
	Sig string `json:"sig,omitempty"`
}

func funcSig(fn *ssa.Function) string {
	if fn == nil {
		return ""
	}
	var sb strings.Builder
	// parameters and results only: the captured variables change as soon as an
	// edit mentions one more local, which says nothing about which literal it is
	sb.WriteString(fn.Signature.String())
	return sb.String()
}

func loadJSON(path string, v any) error {
	b, err := os.ReadFile(path)
	if err != nil {
		return err
	}
	return json.Unmarshal(b, v)
}

type CheckOpts struct {
	Property  string
	Tier      string
	Seed      int64
	Contracts string
	Repo      string
	Verbose   bool
	NoEvidence bool
	WriteLedger bool
}

// functionsFor lists the functions whose contracts mention the property.
func functionsFor(prog *Program, cs *Contracts, prop string) []string {
	set := map[string]bool{}
	has := func(props []string) bool {
		for _, p := range props {
			if p == prop {
				return true
			}
		}
		return false
	}
	for name, fc := range cs.Funcs {
		if strings.HasPrefix(name, "ff:") || strings.HasPrefix(name, "if:") {
			continue
		}
		if fc.Trusted || inlineOnly(fc) {
			continue
		}
		use := false
		for _, c := range fc.Requires {
			use = use || has(c.Props)
		}
		for _, c := range fc.Ensures {
			use = use || has(c.Props)
		}
		for _, c := range fc.At {
			use = use || has(c.Props)
		}
		for _, cl := range fc.LoopInv {
			for _, c := range cl {
				use = use || has(c.Props)
			}
		}
		use = use || has(fc.NoPanicProps) || has(fc.EffProps)
		if prop == "C15" && fc.HasNoPanic && !use {
			if fn := prog.Funcs[name]; fn != nil && hasChanOps(fn, cs) {
				use = true
			}
		}
		if use {
			set[name] = true
		}
	}
	// lock invariants tagged with the property: every function that unlocks that monitor
	for tname, tc := range cs.Types {
		for _, inv := range tc.Invariants {
			if has(inv.Props) {
				for name, fn := range prog.Funcs {
					if _, ok := cs.Funcs[name]; !ok {
						continue
					}
					if touchesLock(fn, tname, inv.Lock) || (inv.Lock == "stable" && touchesType(fn, tname, cs)) {
						set[name] = true
					}
				}
			}
		}
	}
	// preconditions tagged with the property are discharged at call sites:
	// every contracted caller of such a function belongs to the check
	needs := map[string]bool{}
	for name, fc := range cs.Funcs {
		for _, c := range fc.Requires {
			if has(c.Props) {
				needs[name] = true
			}
		}
	}
	if len(needs) > 0 {
		var scan func(fn *ssa.Function, owner string)
		scan = func(fn *ssa.Function, owner string) {
			for _, b := range fn.Blocks {
				for _, in := range b.Instrs {
					var cc *ssa.CallCommon
					switch x := in.(type) {
					case *ssa.Call:
						cc = &x.Call
					case *ssa.Defer:
						cc = &x.Call
					case *ssa.Go:
						cc = &x.Call
					}
					if cc == nil {
						continue
					}
					if callee := cc.StaticCallee(); callee != nil && needs[FuncName(callee)] {
						set[owner] = true
					}
				}
			}
			for _, an := range fn.AnonFuncs {
				if _, own := cs.Funcs[FuncName(an)]; !own {
					scan(an, owner)
				}
			}
		}
		for name, fc := range cs.Funcs {
			if strings.HasPrefix(name, "ff:") || strings.HasPrefix(name, "if:") || fc.Trusted || inlineOnly(fc) {
				continue
			}
			if fn := prog.Funcs[name]; fn != nil {
				scan(fn, name)
			}
		}
	}
	var out []string
	for n := range set {
		out = append(out, n)
	}
	sort.Strings(out)
	return out
}

// touchesType: the function (or a closure of it without a contract of its
// own) addresses a field of the named struct type. Stable invariants of the
// type are re-established at the calls such a function makes.
func touchesType(fn *ssa.Function, tname string, cs *Contracts) bool {
	for _, b := range fn.Blocks {
		for _, in := range b.Instrs {
			if fa, ok := in.(*ssa.FieldAddr); ok {
				if pt, ok := fa.X.Type().Underlying().(*types.Pointer); ok && namedKey(pt.Elem()) == tname {
					return true
				}
			}
		}
	}
	for _, an := range fn.AnonFuncs {
		if _, own := cs.Funcs[FuncName(an)]; !own && touchesType(an, tname, cs) {
			return true
		}
	}
	return false
}

// hasChanOps: the function (or a closure of it without its own contract)
// sends on or closes a channel.
func hasChanOps(fn *ssa.Function, cs *Contracts) bool {
	for _, b := range fn.Blocks {
		for _, in := range b.Instrs {
			switch x := in.(type) {
			case *ssa.Send, *ssa.MapUpdate:
				return true
			case *ssa.Select:
				for _, s := range x.States {
					if s.Dir == types.SendOnly {
						return true
					}
				}
			case *ssa.Call:
				if bi, ok := x.Call.Value.(*ssa.Builtin); ok && bi.Name() == "close" {
					return true
				}
			case *ssa.Defer:
				if bi, ok := x.Call.Value.(*ssa.Builtin); ok && bi.Name() == "close" {
					return true
				}
			}
		}
	}
	for _, an := range fn.AnonFuncs {
		if _, own := cs.Funcs[FuncName(an)]; !own && hasChanOps(an, cs) {
			return true
		}
	}
	return false
}

func touchesLock(fn *ssa.Function, tname, lock string) bool {
	for _, b := range fn.Blocks {
		for _, in := range b.Instrs {
			if fa, ok := in.(*ssa.FieldAddr); ok {
				pt := fa.X.Type().Underlying()
				if p, ok := pt.(interface{ Elem() interface{} }); ok {
					_ = p
				}
				s := fa.X.Type().String()
				if strings.Contains(s, "."+tname) {
					// field name
					if strings.Contains(in.String(), "."+lock+" ") || strings.HasSuffix(strings.Fields(in.String())[0], "."+lock) {
						return true
					}
				}
			}
		}
	}
	return false
}

func instanceBelongs(in *Instance, prop string, funcProps map[string]bool) bool {
	if len(in.Props) == 0 {
		return funcProps[prop]
	}
	for _, p := range in.Props {
		if p == prop {
			return true
		}
	}
	return false
}

func funcProps(fc *FuncContract) map[string]bool {
	m := map[string]bool{}
	add := func(ps []string) {
		for _, p := range ps {
			m[p] = true
		}
	}
	if fc == nil {
		return m
	}
	for _, c := range fc.Requires {
		add(c.Props)
	}
	for _, c := range fc.Ensures {
		add(c.Props)
	}
	for _, c := range fc.At {
		add(c.Props)
	}
	for _, cl := range fc.LoopInv {
		for _, c := range cl {
			add(c.Props)
		}
	}
	add(fc.NoPanicProps)
	add(fc.EffProps)
	return m
}

// RunCheck verifies one property and writes evidence. Returns the exit code.
func RunCheck(o CheckOpts) int {
	t0 := time.Now()
	if o.Repo == "" {
		o.Repo = repoDir
	}
	if o.Contracts == "" {
		o.Contracts = filepath.Join(o.Repo, "contracts_verif.go")
	}
	prog, err := Load(o.Repo)
	if err != nil {
		fmt.Printf("MACHINERY-ERROR property=%s cannot load /repo: %v\n", o.Property, err)
		return 2
	}
	cs, err := ParseContracts(o.Contracts)
	if err != nil {
		fmt.Printf("MACHINERY-ERROR property=%s contract file: %v\n", o.Property, err)
		return 2
	}
	var kf KnownFindings
	_ = loadJSON(filepath.Join(verifDir, "known_findings.json"), &kf)
	var ledger Ledger
	_ = loadJSON(filepath.Join(verifDir, "obligations.lock.json"), &ledger)

	timeout := 20
	thorough := o.Tier == "thorough"
	if thorough {
		timeout = 60
	}

	cs.AssumeProp = o.Property
	contractErrors = nil
	contractErrInfo = nil
	fnames := functionsFor(prog, cs, o.Property)
	type job struct {
		fr *FuncResult
		in *Instance
	}
	var results []*FuncResult
	var undecidedFuncs []string
	var mu sync.Mutex
	var wg sync.WaitGroup
	sem := make(chan struct{}, 16)
	// the executor shares a loop-analysis cache; run function executions sequentially (they are fast)
	for _, name := range fnames {
		fn := prog.Funcs[name]
		if fn == nil {
			undecidedFuncs = append(undecidedFuncs, name)
			continue
		}
		fr := VerifyFunction(prog, cs, fn, false, nil)
		results = append(results, fr)
	}
	// extra engines contribute obligations in the same format
	extra := extraObligations(prog, cs, o.Property)
	results = append(results, extra...)

	byName := map[string]*ObligationResult{}
	var order []string
	groups := map[string][]*Instance{}
	for _, fr := range results {
		fp := funcProps(cs.Funcs[fr.Name])
		if fr.OutOfReach != "" {
			name := fr.Name + "/reach"
			byName[name] = &ObligationResult{Name: name, Kind: "reach", Function: fr.Name, Result: "undecided", Reason: fr.OutOfReach}
			order = append(order, name)
			continue
		}
		for _, in := range fr.Insts {
			if !instanceBelongs(in, o.Property, fp) {
				continue
			}
			ob := byName[in.Name]
			if ob == nil {
				ob = &ObligationResult{Name: in.Name, Kind: in.Kind, Function: in.Func, Props: in.Props, Clause: in.Clause, Result: "discharged", fr: fr}
				if in.Pos.IsValid() {
					ob.Pos = fmt.Sprintf("%s:%d", filepath.Base(in.Pos.Filename), in.Pos.Line)
				}
				byName[in.Name] = ob
				order = append(order, in.Name)
			}
			ob.Instances++
			if !in.Cover && in.Goal == "true" {
				ob.Trivial++
			}
			groups[in.Name] = append(groups[in.Name], in)
			for _, n := range in.Notes {
				if !contains(ob.Notes, n) {
					ob.Notes = append(ob.Notes, n)
				}
			}
		}
	}
	var solverMs int64
	for name, ins := range groups {
		ob := byName[name]
		wg.Add(1)
		sem <- struct{}{}
		go func(ob *ObligationResult, ins []*Instance) {
			defer wg.Done()
			defer func() { <-sem }()
			status, failing, r := SolveGroup(ob.fr, ins, timeout, thorough)
			mu.Lock()
			defer mu.Unlock()
			solverMs += r.Ms
			ob.Ms = r.Ms
			ob.Solver = r.Solver
			if ob.Kind == "cover" {
				ob.coverSat = status != "unsat"
				return
			}
			switch status {
			case "unsat":
			case "sat":
				ob.Result = "failed"
				ob.failing, ob.failRes = failing, r
			default:
				ob.Result = "unknown"
				ob.failing, ob.failRes = failing, r
				ob.Reason = "solver answered " + r.Status + " (" + strings.Join(r.Agree, " ") + ")"
			}
		}(ob, ins)
	}
	wg.Wait()
	// An inconclusive answer may only mean that the machine was busy: retry a
	// few such obligations with four times the time, two at a time, now that
	// the bulk of the queries is out of the way.
	var retry []*ObligationResult
	for _, n := range order {
		if ob := byName[n]; ob != nil && ob.Result == "unknown" && ob.Kind != "cover" {
			retry = append(retry, ob)
		}
	}
	if len(retry) > 0 && len(retry) <= 24 {
		rsem := make(chan struct{}, 2)
		for _, ob := range retry {
			wg.Add(1)
			rsem <- struct{}{}
			go func(ob *ObligationResult) {
				defer wg.Done()
				defer func() { <-rsem }()
				status, failing, r := SolveGroup(ob.fr, groups[ob.Name], timeout*4, thorough)
				mu.Lock()
				defer mu.Unlock()
				solverMs += r.Ms
				ob.Ms += r.Ms
				switch status {
				case "unsat":
					ob.Result, ob.Reason, ob.Solver = "discharged", "", r.Solver+" (retry)"
					ob.failing = nil
				case "sat":
					ob.Result, ob.Reason = "failed", ""
					ob.failing, ob.failRes = failing, r
				default:
					ob.Reason = "solver answered " + r.Status + " twice, the second time with four times the time (" + strings.Join(r.Agree, " ") + ")"
				}
			}(ob)
		}
		wg.Wait()
	}
	for _, ob := range byName {
		if ob.Kind == "cover" && !ob.coverSat && ob.Instances > ob.Trivial {
			ob.Result = "vacuous"
			ob.Reason = "cover probe unsatisfiable on every path: contradictory assumptions or unreachable assertion"
		}
	}
	// verdicts
	exit := 0
	machinery := false
	violations := 0
	var lines []string
	discharged, undecided, known := 0, 0, 0
	ledgerObs := ledger.Obligations[o.Property]
	os.MkdirAll(filepath.Join(verifDir, "replays", o.Property), 0o755)
	sort.Strings(order)
	var obs []*ObligationResult
	for _, n := range order {
		obs = append(obs, byName[n])
	}
	// Functions whose contract names a local that no longer exists: the clauses
	// that could not be evaluated are dropped, and the function's other
	// obligations may depend on them (a loop invariant, a ghost update), so
	// their failure says nothing about the code.
	staleContract := map[string]string{}
	staleGhost := map[string][]string{}
	if ledgerObs != nil {
		for _, ce := range contractErrInfo {
			if !strings.Contains(ce.Msg, "unknown identifier") {
				continue
			}
			switch {
			case ce.Class == "basis":
				if _, ok := staleContract[ce.Func]; !ok {
					staleContract[ce.Func] = ce.Msg
				}
			case strings.HasPrefix(ce.Class, "ghost:"):
				staleGhost[ce.Func] = append(staleGhost[ce.Func], strings.TrimPrefix(ce.Class, "ghost:"))
			}
		}
	}
	// The structural passes (effects, disciplines, no-panic sweep, goroutine
	// inventory) classify functions by their contracts. A function that does not
	// exist on the pinned tree has none: what it may do is not known, which is
	// not the same as a violation.
	isNewFunc := func(n string) bool {
		if len(ledger.PackageFuncs) == 0 || n == "" || prog.Funcs[n] == nil {
			return false
		}
		return !contains(ledger.PackageFuncs, n)
	}
	// contracts bound to a different function literal than on the pinned tree
	for _, ob := range obs {
		if ob.Result != "failed" && ob.Result != "unknown" {
			continue
		}
		lf, ok := ledger.Functions[ob.Function]
		if !ok || lf.Sig == "" || !strings.Contains(ob.Function, "$") {
			continue
		}
		if fn := prog.Funcs[ob.Function]; fn != nil && funcSig(fn) != lf.Sig {
			ob.Result = "undecided"
			ob.Reason = "the function literal " + ob.Function + " is a different one on this tree (literals are numbered in source order; its signature was " + lf.Sig + "): the contract is bound to the wrong code"
		}
	}
	for _, ob := range obs {
		if ob.Result == "failed" || ob.Result == "unknown" {
			culprit := ""
			structural := ob.Kind == "effect" || ob.Kind == "discipline" || ob.Kind == "sweep" || ob.Kind == "goroutine"
			if isNewFunc(ob.Function) && cs.Funcs[ob.Function] == nil {
				// also the no-panic sweep of a function nobody has given a precondition
				culprit = ob.Function
			} else if i := strings.LastIndex(ob.Name, "/"); structural && i >= 0 && isNewFunc(ob.Name[i+1:]) {
				culprit = ob.Name[i+1:]
			}
			if culprit != "" {
				ob.Result = "undecided"
				ob.Reason = "function " + culprit + " does not exist on the pinned tree and has no contract: the pass cannot classify what it does"
			}
		}
	}
	// a ghost update whose anchor (call site, store, return) is gone leaves the
	// ghost variable at its initial value: assertions that read that variable
	// cannot be trusted (the others can)
	missingGhost := map[string][]string{}
	for f, gs := range staleGhost {
		missingGhost[f] = append(missingGhost[f], gs...)
	}
	if ledgerObs != nil {
		for _, ob := range obs {
			if ob.Kind == "anchor" && (ob.Result == "failed" || ob.Result == "unknown") {
				if i := strings.LastIndex(ob.Name, "/"); i >= 0 && strings.HasPrefix(ob.Name[i+1:], "ghost#") {
					if m := ghostOfClauseRe.FindStringSubmatch(ob.Clause); m != nil {
						missingGhost[ob.Function] = append(missingGhost[ob.Function], m[1])
					}
				}
			}
		}
	}
	for _, ob := range obs {
		if ob.Result != "failed" && ob.Result != "unknown" || ob.Kind == "anchor" {
			continue
		}
		for _, g := range missingGhost[ob.Function] {
			if regexp.MustCompile(`(^|[^A-Za-z0-9_.])` + regexp.QuoteMeta(g) + `($|[^A-Za-z0-9_])`).MatchString(ob.Clause) {
				ob.Result = "undecided"
				ob.Reason = "reads ghost variable " + g + ", whose update is anchored at an instruction that no longer exists (code restructured)"
				break
			}
		}
	}
	for _, ob := range obs {
		// a goal that is concretely false is decided by the executor's own state
		// (lockset, call counts), not by anything a dropped clause could have contributed
		concrete := ob.Result == "failed" && ob.failing != nil && ob.failing.Goal == "false" && concreteKind(ob.Kind)
		if why, ok := staleContract[ob.Function]; ok && !concrete && (ob.Result == "failed" || ob.Result == "unknown") && ob.Kind != "og-schema" && ob.Kind != "anchor" {
			ob.Result = "undecided"
			ob.Reason = "another clause of this function's contract could not be evaluated on this tree, so what this obligation relies on may be missing: " + why
		}
		switch ob.Result {
		case "discharged":
			discharged++
		case "vacuous":
			if ledgerObs != nil {
				// reachable on the pinned tree, not on this one: the code changed under the assertion
				undecided++
				lines = append(lines, fmt.Sprintf("UNDECIDED property=%s obligation=%s reason=assertion point no longer reachable on this tree", o.Property, ob.Name))
				continue
			}
			lines = append(lines, fmt.Sprintf("MACHINERY-ERROR property=%s vacuity probe failed: %s (%s)", o.Property, ob.Name, ob.Reason))
			machinery = true
		case "undecided":
			undecided++
			lines = append(lines, fmt.Sprintf("UNDECIDED property=%s obligation=%s reason=%s", o.Property, ob.Name, ob.Reason))
		case "failed", "unknown":
			if ob.Kind == "og-schema" {
				// the code no longer has the access structure the thread-modular invariant is stated over
				ob.Result = "undecided"
				ob.Reason = "shared-access structure differs from the action schema of the interleaving invariant: " + ob.Clause
				undecided++
				lines = append(lines, fmt.Sprintf("UNDECIDED property=%s obligation=%s reason=%s", o.Property, ob.Name, ob.Reason))
				continue
			}
			if ob.Kind == "anchor" || ob.Kind == "goroutine" && strings.HasSuffix(ob.Name, "/stale") && ledgerObs != nil {
				// the contract's target (call site, loop, return) no longer exists: cannot tell
				ob.Result = "undecided"
				ob.Reason = "contract anchor no longer matches an instruction (code restructured)"
				undecided++
				lines = append(lines, fmt.Sprintf("UNDECIDED property=%s obligation=%s reason=%s", o.Property, ob.Name, ob.Reason))
				continue
			}
			// known finding?
			isKnown := false
			for _, k := range kf.Known {
				if k.Property == o.Property && k.Obligation == ob.Name {
					isKnown = true
					lines = append(lines, fmt.Sprintf("KNOWN-FINDING: property=%s %s [%s]", o.Property, k.What, ob.Name))
				}
			}
			if isKnown {
				ob.Result = "known"
				known++
				continue
			}
			newAbs := newAbstractions(ob, ledger)
			inLedger := ledgerObs != nil && ledgerObs[ob.Name] == "discharged"
			if ob.Result == "unknown" && !inLedger {
				ob.Result = "undecided"
				undecided++
				lines = append(lines, fmt.Sprintf("UNDECIDED property=%s obligation=%s reason=%s", o.Property, ob.Name, ob.Reason))
				continue
			}
			concreteFail := ob.Result == "failed" && ob.failing != nil && ob.failing.Goal == "false" && concreteKind(ob.Kind)
			for _, n := range newAbs {
				// a package function without contract that could not be inlined may
				// itself make the calls the executor is counting
				if strings.HasPrefix(n, "callee ") {
					concreteFail = false
				}
			}
			if len(newAbs) > 0 && (ledgerObs != nil) && !concreteFail {
				ob.Result = "undecided"
				ob.Reason = "path crosses abstraction points not present on the pinned tree: " + strings.Join(newAbs, "; ")
				undecided++
				lines = append(lines, fmt.Sprintf("UNDECIDED property=%s obligation=%s reason=%s", o.Property, ob.Name, ob.Reason))
				continue
			}
			violations++
			exit = maxInt(exit, 1)
			rp, outcome := writeReplay(o, ob, prog)
			suffix := ""
			if outcome != "confirmed" {
				suffix = " no-failing-input-found"
			}
			lines = append(lines, fmt.Sprintf("VIOLATION property=%s replay=%s obligation=%s clause=%q%s", o.Property, rp, ob.Name, ob.Clause, suffix))
		}
	}
	// obligations recorded in the ledger that no longer exist
	if ledgerObs != nil {
		for name := range ledgerObs {
			if _, ok := byName[name]; !ok {
				undecided++
				lines = append(lines, fmt.Sprintf("UNDECIDED property=%s obligation=%s reason=anchor no longer exists on this tree (function, loop or call site renamed or removed)", o.Property, name))
			}
		}
	}
	for _, n := range undecidedFuncs {
		undecided++
		lines = append(lines, fmt.Sprintf("UNDECIDED property=%s obligation=%s/* reason=function under contract not found", o.Property, n))
	}
	for _, m := range contractErrors {
		if ledgerObs != nil && strings.Contains(m, "unknown identifier") {
			// a contract clause names a local that no longer exists: the code changed under the contract
			undecided++
			lines = append(lines, fmt.Sprintf("UNDECIDED property=%s reason=%s", o.Property, m))
			continue
		}
		lines = append(lines, "MACHINERY-ERROR "+m)
		machinery = true
	}
	if len(obs) == 0 {
		lines = append(lines, fmt.Sprintf("MACHINERY-ERROR property=%s zero obligations generated", o.Property))
		machinery = true
	}
	if machinery && exit == 0 {
		exit = 2
	}
	sort.Strings(lines)
	for _, l := range lines {
		fmt.Println(l)
	}
	var selfRows []selfRow
	if thorough && o.Repo == repoDir && os.Getenv("GTV_NO_SELFTEST") == "" {
		// the machinery must still catch what it is meant to catch, and stay quiet on neutral edits
		rows, ok := runSelftest(o.Property, nil, 3)
		selfRows = rows
		for _, r := range rows {
			if !r.OK {
				fmt.Printf("SELFTEST-FAIL property=%s entry=%s exit=%d violations=%v %s\n", o.Property, r.Entry, r.Exit, r.Violations, r.Note)
			}
		}
		// A selftest miss says the machinery is weaker than intended, not
		// that the property fails on this tree: it is reported and recorded
		// in the evidence, and does not change the verdict.
		_ = ok
	}
	selftestRows = selfRows
	wall := time.Since(t0).Seconds()
	fmt.Printf("SUMMARY property=%s tier=%s obligations=%d discharged=%d known=%d undecided=%d violations=%d functions=%d solver_s=%.1f wall_s=%.1f\n",
		o.Property, o.Tier, len(obs), discharged, known, undecided, violations, len(results), float64(solverMs)/1000, wall)
	if !o.NoEvidence {
		writeEvidence(o, prog, cs, results, obs, discharged, undecided, known, violations, float64(solverMs)/1000, wall)
	}
	if o.WriteLedger && exit == 0 {
		updateLedger(o, prog, results, obs)
	}
	return exit
}

var selftestRows []selfRow

func maxInt(a, b int) int {
	if a > b {
		return a
	}
	return b
}

func contains(xs []string, x string) bool {
	for _, y := range xs {
		if y == x {
			return true
		}
	}
	return false
}

var ghostOfClauseRe = regexp.MustCompile(`of clause '([A-Za-z_][A-Za-z0-9_]*) [-+]?= `)

// concreteKind: obligations whose concretely false goal is a fact the executor
// keeps itself (held locks, counts of calls and events). Frame, lock-announcement
// and structural obligations turn concretely false for the opposite reason: the
// code reached something the contract does not describe.
func concreteKind(kind string) bool {
	return kind == "assert" || kind == "post" || kind == "pre@call" || kind == "pre@go"
}

func newAbstractions(ob *ObligationResult, l Ledger) []string {
	lf, ok := l.Functions[ob.Function]
	if !ok {
		return nil
	}
	var out []string
	for _, n := range ob.Notes {
		if !contains(lf.Abstractions, n) {
			out = append(out, n)
		}
	}
	return out
}

func updateLedger(o CheckOpts, prog *Program, results []*FuncResult, obs []*ObligationResult) {
	var l Ledger
	_ = loadJSON(filepath.Join(verifDir, "obligations.lock.json"), &l)
	l.PackageFuncs = nil
	for n := range prog.Funcs {
		l.PackageFuncs = append(l.PackageFuncs, n)
	}
	sort.Strings(l.PackageFuncs)
	if l.Functions == nil {
		l.Functions = map[string]LedgerFunc{}
	}
	if l.Obligations == nil {
		l.Obligations = map[string]map[string]string{}
	}
	for _, fr := range results {
		l.Functions[fr.Name] = LedgerFunc{Abstractions: fr.Notes, Sig: funcSig(prog.Funcs[fr.Name])}
	}
	m := map[string]string{}
	for _, ob := range obs {
		if ob.Kind == "cover" {
			continue
		}
		m[ob.Name] = ob.Result
	}
	l.Obligations[o.Property] = m
	b, _ := json.MarshalIndent(l, "", " ")
	os.WriteFile(filepath.Join(verifDir, "obligations.lock.json"), b, 0o644)
}

func writeReplay(o CheckOpts, ob *ObligationResult, prog *Program) (string, string) {
	dir := filepath.Join(verifDir, "replays", o.Property)
	os.MkdirAll(dir, 0o755)
	fname := strings.NewReplacer("/", "_", "(", "", ")", "", "*", "", ":", "_", "#", "_", "$", "_", " ", "").Replace(ob.Name)
	path := filepath.Join(dir, fname+".json")
	outcome := "no-failing-input-found"
	rep := map[string]any{
		"property":   o.Property,
		"obligation": ob.Name,
		"clause":     ob.Clause,
		"function":   ob.Function,
		"pos":        ob.Pos,
		"solver":     ob.failRes.Solver,
		"status":     ob.failRes.Status,
		"solver_output": truncate(ob.failRes.Raw, 20000),
	}
	if ob.failing != nil {
		rep["path"] = ob.failing.Path
		rep["abstractions"] = ob.failing.Notes
		if ob.fr != nil {
			rep["query_smt2"] = truncate(BuildQuery(ob.fr, ob.failing), 200000)
		}
	}
	if ob.failRes.Status == "sat" {
		inputs := modelInputs(ob.failRes.Model)
		rep["model_inputs"] = inputs
		if r := tryReplay(o, ob, inputs); r != nil {
			rep["replay"] = r
			if c, _ := r["outcome"].(string); c != "" {
				outcome = c
			}
		}
	}
	rep["outcome"] = outcome
	b, _ := json.MarshalIndent(rep, "", " ")
	os.WriteFile(path, b, 0o644)
	return path, outcome
}

func truncate(s string, n int) string {
	if len(s) > n {
		return s[:n] + "\n...[truncated]"
	}
	return s
}

// modelInputs extracts the values of parameter-derived symbols from a model.
func modelInputs(model string) map[string]string {
	out := map[string]string{}
	// (define-fun |p:x!3| () (_ BitVec 64) #x...)
	lines := strings.Split(model, "(define-fun ")
	for _, l := range lines[1:] {
		l = strings.TrimSpace(l)
		if !strings.HasPrefix(l, "|p:") && !strings.HasPrefix(l, "|fv:") {
			continue
		}
		end := strings.Index(l[1:], "|")
		if end < 0 {
			continue
		}
		name := l[1 : end+1]
		rest := strings.TrimSpace(l[end+2:])
		if !strings.HasPrefix(rest, "()") {
			continue
		}
		rest = strings.TrimSpace(rest[2:])
		// drop sort
		val := rest
		if strings.HasPrefix(rest, "(_ BitVec") {
			if i := strings.Index(rest, ")"); i >= 0 {
				val = strings.TrimSpace(rest[i+1:])
			}
		} else if i := strings.IndexAny(rest, " \n"); i >= 0 {
			val = strings.TrimSpace(rest[i:])
		}
		val = strings.TrimSuffix(strings.TrimSpace(val), ")")
		if strings.HasPrefix(val, "#x") {
			if u, err := strconv.ParseUint(val[2:], 16, 64); err == nil {
				val = fmt.Sprintf("%d (0x%s)", u, val[2:])
			}
		}
		out[name] = strings.TrimSpace(val)
	}
	return out
}

func writeEvidence(o CheckOpts, prog *Program, cs *Contracts, results []*FuncResult, obs []*ObligationResult, discharged, undecided, known, violations int, solverS, wall float64) {
	type fnInfo struct {
		Name         string   `json:"name"`
		Blocks       int      `json:"ssa_blocks"`
		Instrs       int      `json:"ssa_instrs"`
		Paths        int      `json:"paths"`
		Abstractions []string `json:"abstraction_points,omitempty"`
		OutOfReach   string   `json:"out_of_reach,omitempty"`
	}
	var fns []fnInfo
	for _, fr := range results {
		fns = append(fns, fnInfo{fr.Name, fr.Blocks, fr.Instrs, fr.Paths, fr.Notes, fr.OutOfReach})
	}
	var samples []any
	nSamples := 0
	for _, ob := range obs {
		if ob.Kind == "cover" || nSamples >= 4 {
			continue
		}
		// write out a couple of obligations with their SMT text
		if ob.fr != nil {
			for _, in := range ob.fr.Insts {
				if in.Name == ob.Name && in.Goal != "true" && !in.Cover {
					q := BuildQuery(ob.fr, in)
					samples = append(samples, map[string]any{"obligation": ob.Name, "clause": ob.Clause, "pos": ob.Pos, "result": ob.Result, "solver": ob.Solver,
						"goal": truncate(in.Goal, 600), "assumptions": len(in.Assumes), "smt2_bytes": len(q), "smt2_head": truncate(lastLines(q, 12), 3000)})
					nSamples++
					break
				}
			}
		}
	}
	if len(samples) == 0 {
		for _, ob := range obs {
			samples = append(samples, map[string]any{"obligation": ob.Name, "clause": ob.Clause, "result": ob.Result})
			if len(samples) >= 3 {
				break
			}
		}
	}
	nonCover := 0
	dischargedNC := 0
	for _, ob := range obs {
		if ob.Kind == "cover" {
			continue
		}
		nonCover++
		if ob.Result == "discharged" {
			dischargedNC++
		}
	}
	var tb []string
	tb = append(tb, "gtverify: own VC generator over go/ssa (x/tools v0.29.0) of /repo's working tree; machine integers as bit-vectors; Burstall-Bornat heap",
		"SMT solvers: z3 5.1.0 (z3-new; also with the monotone-interference axioms restated quantifier-free with the array 'map' combinator, and, for unsat answers only, without array extensionality), cvc5 1.0, z3 4.8.12; unsat from any one discharges (quick), all answering solvers must agree (thorough); budgets are CPU seconds per query (20 quick, 60 thorough; an inconclusive obligation is retried once with four times the budget), so verdicts do not depend on machine load",
		"string lengths are non-negative and below 2^40 (axiom on the abstract string model)",
		"Go memory model / sync, sync/atomic and channel semantics as encoded in internal/engine (monitor rule: acquire = havoc guarded fields + assume invariant)")
	for _, k := range sortedKeys(AssumedContracts) {
		tb = append(tb, "assumed contract: "+k+" — "+AssumedContracts[k])
	}
	seed := o.Seed
	tier := o.Tier
	if tier != "thorough" {
		tier = "quick"
	}
	ev := map[string]any{
		"property_id": o.Property,
		"tier":        tier,
		"seed":        seed,
		"level":       "proof",
		"coverage": map[string]any{
			"obligations":  nonCover,
			"discharged":   dischargedNC,
			"undecided":    undecided,
			"known_findings": known,
			"cover_probes": len(obs) - nonCover,
			"checker_cmd":  fmt.Sprintf("bin/gtverify check --property %s --tier %s", o.Property, tier),
			"trusted_base": tb,
			"functions_under_contract": fns,
			"obligation_list":          obs,
			"solver_seconds":           solverS,
			"samples":                  samples,
			"not_decided":              notDecided[o.Property],
			"integers":                 "machine integers (SMT bit-vectors of the Go type's width); ghost indices are mathematical Int",
			"contract_file":            cs.File,
			"selftest":                 selftestRows,
		},
		"assumptions": assumptionsFor(o.Property),
		"wall_s":      wall,
		"violations":  violations,
	}
	os.MkdirAll(filepath.Join(verifDir, "evidence"), 0o755)
	b, _ := json.MarshalIndent(ev, "", " ")
	os.WriteFile(filepath.Join(verifDir, "evidence", o.Property+".json"), b, 0o644)
}

func lastLines(s string, n int) string {
	ls := strings.Split(strings.TrimSpace(s), "\n")
	if len(ls) > n {
		ls = ls[len(ls)-n:]
	}
	return strings.Join(ls, "\n")
}
