package engine

import (
	"flag"
	"fmt"
	"os"
	"sort"
	"strconv"
	"strings"
	"sync"
)

func Main(args []string) int {
	if len(args) == 0 {
		fmt.Fprintln(os.Stderr, "usage: gtverify <check|dump|list|ledger|replay|selftest> ...")
		return 2
	}
	switch args[0] {
	case "dump":
		p, err := Load("/repo")
		if err != nil {
			fmt.Fprintln(os.Stderr, err)
			return 2
		}
		if len(args) == 1 {
			for _, n := range p.SortedFuncNames() {
				fmt.Println(n, len(p.Funcs[n].Blocks))
			}
			return 0
		}
		for _, n := range args[1:] {
			f := p.Funcs[n]
			if f == nil {
				fmt.Println("no such function", n)
				continue
			}
			f.WriteTo(os.Stdout)
		}
		return 0
	case "check":
		fs := flag.NewFlagSet("check", flag.ExitOnError)
		prop := fs.String("property", "", "property id")
		tier := fs.String("tier", os.Getenv("VERIF_TIER"), "quick|thorough")
		contracts := fs.String("contracts", "", "contract file (default /repo/contracts_verif.go)")
		repo := fs.String("repo", "/repo", "repository working tree")
		verbose := fs.Bool("v", false, "verbose")
		noEv := fs.Bool("no-evidence", false, "do not write evidence")
		ledger := fs.Bool("write-ledger", false, "record this run's obligations in obligations.lock.json")
		fs.Parse(args[1:])
		if *tier == "" {
			*tier = "quick"
		}
		seed, _ := strconv.ParseInt(os.Getenv("VERIF_SEED"), 10, 64)
		return RunCheck(CheckOpts{Property: *prop, Tier: *tier, Seed: seed, Contracts: *contracts, Repo: *repo, Verbose: *verbose, NoEvidence: *noEv, WriteLedger: *ledger})
	case "all":
		return runAll(args[1:])
	case "ledger":
		// regenerate obligations.lock.json from the current (pinned) tree; refuses on any alarm
		os.Remove(verifDir + "/obligations.lock.json")
		rc := 0
		for i := 1; i <= 18; i++ {
			p := fmt.Sprintf("C%02d", i)
			if r := RunCheck(CheckOpts{Property: p, Tier: "quick", WriteLedger: true}); r != 0 {
				fmt.Printf("LEDGER-REFUSED property=%s exit=%d\n", p, r)
				rc = 1
			}
		}
		return rc
	case "selftest":
		return selftestMain(args[1:])
	case "replay":
		if len(args) < 2 {
			fmt.Println("usage: gtverify replay <path>")
			return 2
		}
		return ReplayFile(args[1])
	case "func":
		// debugging aid: verify one function and print every instance
		return debugFunc(args[1:])
	}
	fmt.Fprintln(os.Stderr, "unknown command", args[0])
	return 2
}

func debugFunc(args []string) int {
	fs := flag.NewFlagSet("func", flag.ExitOnError)
	contracts := fs.String("contracts", "/repo/contracts_verif.go", "contract file")
	repo := fs.String("repo", "/repo", "repo")
	sweep := fs.Bool("sweep", false, "no-panic sweep")
	dump := fs.String("dump", "", "write failing queries to this dir")
	fs.Parse(args)
	p, err := Load(*repo)
	if err != nil {
		fmt.Println(err)
		return 2
	}
	cs, err := ParseContracts(*contracts)
	if err != nil {
		fmt.Println(err)
		return 2
	}
	for _, n := range fs.Args() {
		fn := p.Funcs[n]
		if fn == nil {
			fmt.Println("no such function", n)
			continue
		}
		fr := VerifyFunction(p, cs, fn, *sweep, nil)
		fmt.Printf("== %s: %d instances, %d paths, outOfReach=%q\n", n, len(fr.Insts), fr.Paths, fr.OutOfReach)
		for _, nn := range fr.Notes {
			fmt.Println("   note:", nn)
		}
		groups := map[string][]*Instance{}
		var names []string
		for _, in := range fr.Insts {
			if _, ok := groups[in.Name]; !ok {
				names = append(names, in.Name)
			}
			groups[in.Name] = append(groups[in.Name], in)
		}
		type out struct {
			name string
			text string
		}
		res := make([]string, len(names))
		var wg sync.WaitGroup
		sem := make(chan struct{}, 16)
		for i, n := range names {
			wg.Add(1)
			sem <- struct{}{}
			go func(i int, n string) {
				defer wg.Done()
				defer func() { <-sem }()
				ins := groups[n]
				status, failing, r := SolveGroup(fr, ins, 10, false)
				var sb strings.Builder
				if ins[0].Cover {
					if status == "unsat" {
						fmt.Fprintf(&sb, "  [VACUOUS] %s\n", n)
						if *dump != "" {
							os.MkdirAll(*dump, 0o755)
							os.WriteFile(fmt.Sprintf("%s/cover%d.smt2", *dump, i), []byte(BuildQuery(fr, ins[0])+"(check-sat)\n"), 0o644)
						}
					}
					res[i] = sb.String()
					return
				}
				fmt.Fprintf(&sb, "  [%s %dms %s x%d] %s  -- %s\n", status, r.Ms, r.Solver, len(ins), n, ins[0].Clause)
				if os.Getenv("GTV_DUMP_ALL") != "" && *dump != "" && strings.Contains(n, os.Getenv("GTV_DUMP_ALL")) {
					os.MkdirAll(*dump, 0o755)
					for j, in := range ins {
						os.WriteFile(fmt.Sprintf("%s/all%d_%d.smt2", *dump, i, j), []byte(BuildQuery(fr, in)+"(check-sat)\n"), 0o644)
					}
				}
				if status != "unsat" && failing != nil {
					fmt.Fprintf(&sb, "      path: %v\n      goal: %s\n", failing.Path, truncate(failing.Goal, 400))
					if status == "sat" {
						for k, v := range modelInputs(r.Model) {
							fmt.Fprintf(&sb, "      %s = %s\n", k, v)
						}
					} else {
						fmt.Fprintf(&sb, "      raw: %s\n", truncate(r.Raw, 300))
					}
					if *dump != "" {
						os.MkdirAll(*dump, 0o755)
						os.WriteFile(fmt.Sprintf("%s/q%d.smt2", *dump, i), []byte(BuildQuery(fr, failing)+"(check-sat)\n(get-model)\n"), 0o644)
					}
				}
				res[i] = sb.String()
			}(i, n)
		}
		wg.Wait()
		for _, r := range res {
			fmt.Print(r)
		}
	}
	for _, m := range contractErrors {
		fmt.Println(m)
	}
	return 0
}

var DebugSolver = os.Getenv("GTV_DEBUG_SOLVER") != ""

// runAll verifies every function that has a contract and prints one line per
// obligation that is not discharged (used for development and the selftest).
func runAll(args []string) int {
	fs := flag.NewFlagSet("all", flag.ExitOnError)
	contracts := fs.String("contracts", "", "contract file")
	repo := fs.String("repo", "/repo", "repo")
	quiet := fs.Bool("q", false, "only failures")
	fs.Parse(args)
	if *contracts == "" {
		*contracts = *repo + "/contracts_verif.go"
	}
	p, err := Load(*repo)
	if err != nil {
		fmt.Println("LOAD-ERROR", err)
		return 2
	}
	cs, err := ParseContracts(*contracts)
	if err != nil {
		fmt.Println("CONTRACT-ERROR", err)
		return 2
	}
	var names []string
	for n, fc := range cs.Funcs {
		if strings.HasPrefix(n, "ff:") || strings.HasPrefix(n, "if:") || fc.Trusted || inlineOnly(fc) {
			continue
		}
		names = append(names, n)
	}
	sort.Strings(names)
	total, bad := 0, 0
	var frs []*FuncResult
	for _, n := range names {
		fn := p.Funcs[n]
		if fn == nil {
			fmt.Printf("MISSING function %s\n", n)
			bad++
			continue
		}
		frs = append(frs, VerifyFunction(p, cs, fn, false, nil))
	}
	type item struct {
		fr  *FuncResult
		n   string
		ins []*Instance
	}
	var items []item
	for _, fr := range frs {
		if fr.OutOfReach != "" {
			fmt.Printf("OUT-OF-REACH %s: %s\n", fr.Name, fr.OutOfReach)
			bad++
			continue
		}
		groups := map[string][]*Instance{}
		var order []string
		for _, in := range fr.Insts {
			if _, ok := groups[in.Name]; !ok {
				order = append(order, in.Name)
			}
			groups[in.Name] = append(groups[in.Name], in)
		}
		for _, n := range order {
			items = append(items, item{fr, n, groups[n]})
		}
	}
	out := make([]string, len(items))
	var wg sync.WaitGroup
	sem := make(chan struct{}, 16)
	for i, it := range items {
		wg.Add(1)
		sem <- struct{}{}
		go func(i int, it item) {
			defer wg.Done()
			defer func() { <-sem }()
			status, _, r := SolveGroup(it.fr, it.ins, 20, false)
			if it.ins[0].Cover {
				if status == "unsat" {
					out[i] = fmt.Sprintf("VACUOUS %s", it.n)
				}
				return
			}
			if status != "unsat" {
				out[i] = fmt.Sprintf("FAIL[%s] %s -- %s", status, it.n, it.ins[0].Clause)
			} else if !*quiet {
				out[i] = ""
			}
			_ = r
		}(i, it)
	}
	wg.Wait()
	for _, o := range out {
		total++
		if o != "" {
			bad++
			fmt.Println(o)
		}
	}
	for _, m := range contractErrors {
		fmt.Println(m)
		bad++
	}
	fmt.Printf("ALL: %d functions, %d obligations, %d not discharged\n", len(frs), total, bad)
	if bad > 0 {
		return 1
	}
	return 0
}

// inlineOnly: the contract only says "inline" (the body is verified in each caller's context).
func inlineOnly(fc *FuncContract) bool {
	return fc.Inline && len(fc.Requires) == 0 && len(fc.Ensures) == 0 && len(fc.At) == 0 && !fc.HasAssign && !fc.HasNoPanic
}
