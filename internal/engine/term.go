package engine

import (
	"fmt"
	"go/types"
	"math/big"
	"strings"
)

// SMT sorts are plain strings.
const (
	SBool = "Bool"
	SInt  = "Int" // references, abstract ids, ghost indices
)

func SBV(n int) string { return fmt.Sprintf("(_ BitVec %d)", n) }

func bvWidth(sort string) int {
	var n int
	if _, err := fmt.Sscanf(sort, "(_ BitVec %d)", &n); err == nil {
		return n
	}
	return 0
}

func arr(idx, elem string) string { return "(Array " + idx + " " + elem + ")" }

// Leaf is one SMT-level component of a Go value.
type Leaf struct {
	Name string // "" for scalars; "base","off","len","cap"; "tag","val"; "f.g" for struct fields
	Sort string
}

// typeKey renders a type for use in heap-array names: package-local named
// types by bare name, others qualified by package name.
func typeKey(t types.Type) string {
	s := types.TypeString(t, func(p *types.Package) string {
		if p.Path() == pkgPath {
			return ""
		}
		return p.Name()
	})
	// generic receivers: defaultReceiver[T] -> defaultReceiver
	return s
}

func namedKey(t types.Type) string {
	if n, ok := t.(*types.Named); ok {
		q := ""
		if n.Obj().Pkg() != nil && n.Obj().Pkg().Path() != pkgPath {
			q = n.Obj().Pkg().Name() + "."
		}
		return q + n.Obj().Name()
	}
	if a, ok := t.(*types.Alias); ok {
		return namedKey(types.Unalias(a))
	}
	return typeKey(t)
}

func isStruct(t types.Type) bool {
	_, ok := t.Underlying().(*types.Struct)
	return ok
}

// shape returns the leaves of a value of type t.
func shape(t types.Type) []Leaf {
	if tp, ok := t.(*types.TypeParam); ok {
		// a type parameter with a core type (S ~[]T) has that type's shape
		if ct := coreType(tp); ct != nil {
			return shape(ct)
		}
		return []Leaf{{"", SInt}}
	}
	switch u := t.Underlying().(type) {
	case *types.Basic:
		switch {
		case u.Info()&types.IsBoolean != 0:
			return []Leaf{{"", SBool}}
		case u.Info()&types.IsInteger != 0:
			return []Leaf{{"", SBV(intWidth(u))}}
		case u.Info()&types.IsString != 0:
			return []Leaf{{"", SInt}}
		case u.Kind() == types.UnsafePointer:
			return []Leaf{{"", SInt}}
		case u.Kind() == types.UntypedNil:
			return []Leaf{{"", SInt}}
		default: // floats, complex: opaque
			return []Leaf{{"", SInt}}
		}
	case *types.Pointer, *types.Map, *types.Chan, *types.Signature:
		return []Leaf{{"", SInt}}
	case *types.Slice:
		return []Leaf{{"base", SInt}, {"off", SBV(64)}, {"len", SBV(64)}, {"cap", SBV(64)}}
	case *types.Interface:
		if _, ok := t.(*types.TypeParam); ok {
			return []Leaf{{"", SInt}}
		}
		return []Leaf{{"tag", SInt}, {"val", SInt}}
	case *types.Struct:
		var ls []Leaf
		for i := 0; i < u.NumFields(); i++ {
			f := u.Field(i)
			for _, l := range shape(f.Type()) {
				n := f.Name()
				if l.Name != "" {
					n += "." + l.Name
				}
				ls = append(ls, Leaf{n, l.Sort})
			}
		}
		return ls
	case *types.Tuple:
		var ls []Leaf
		for i := 0; i < u.Len(); i++ {
			for _, l := range shape(u.At(i).Type()) {
				n := fmt.Sprintf("%d", i)
				if l.Name != "" {
					n += "." + l.Name
				}
				ls = append(ls, Leaf{n, l.Sort})
			}
		}
		return ls
	case *types.Array:
		// arrays by value are not modelled element-wise: opaque id
		return []Leaf{{"", SInt}}
	}
	return []Leaf{{"", SInt}}
}

func intWidth(b *types.Basic) int {
	switch b.Kind() {
	case types.Int8, types.Uint8:
		return 8
	case types.Int16, types.Uint16:
		return 16
	case types.Int32, types.Uint32, types.UntypedRune:
		return 32
	default:
		return 64
	}
}

func isUnsigned(t types.Type) bool {
	b, ok := t.Underlying().(*types.Basic)
	return ok && b.Info()&types.IsUnsigned != 0
}

func isIntType(t types.Type) bool {
	b, ok := t.Underlying().(*types.Basic)
	return ok && b.Info()&types.IsInteger != 0
}

func isStringType(t types.Type) bool {
	b, ok := t.Underlying().(*types.Basic)
	return ok && b.Info()&types.IsString != 0
}

// ---- term construction (terms are SMT-LIB strings) ----

func app(f string, args ...string) string {
	return "(" + f + " " + strings.Join(args, " ") + ")"
}

func bvLit(v *big.Int, w int) string {
	m := new(big.Int).Lsh(big.NewInt(1), uint(w))
	x := new(big.Int).Mod(v, m)
	if x.Sign() < 0 {
		x.Add(x, m)
	}
	return fmt.Sprintf("(_ bv%s %d)", x.String(), w)
}

func bvLitI(v int64, w int) string { return bvLit(big.NewInt(v), w) }

func intLit(v int64) string {
	if v < 0 {
		return fmt.Sprintf("(- %d)", -v)
	}
	return fmt.Sprintf("%d", v)
}

func tAnd(xs ...string) string {
	var ys []string
	for _, x := range xs {
		if x == "true" {
			continue
		}
		if x == "false" {
			return "false"
		}
		ys = append(ys, x)
	}
	switch len(ys) {
	case 0:
		return "true"
	case 1:
		return ys[0]
	}
	return app("and", ys...)
}

func tOr(xs ...string) string {
	var ys []string
	for _, x := range xs {
		if x == "false" {
			continue
		}
		if x == "true" {
			return "true"
		}
		ys = append(ys, x)
	}
	switch len(ys) {
	case 0:
		return "false"
	case 1:
		return ys[0]
	}
	return app("or", ys...)
}

func tNot(x string) string {
	switch x {
	case "true":
		return "false"
	case "false":
		return "true"
	}
	if strings.HasPrefix(x, "(not ") && balanced(x[5:len(x)-1]) {
		return x[5 : len(x)-1]
	}
	return app("not", x)
}

func balanced(s string) bool {
	d := 0
	for i, c := range s {
		switch c {
		case '(':
			d++
		case ')':
			d--
			if d < 0 {
				return false
			}
			if d == 0 && i != len(s)-1 {
				return false
			}
		case ' ':
			if d == 0 {
				return false
			}
		}
	}
	return d == 0
}

func tImp(a, b string) string {
	if a == "true" {
		return b
	}
	if a == "false" || b == "true" {
		return "true"
	}
	return app("=>", a, b)
}

func tEq(a, b string) string {
	if a == b {
		return "true"
	}
	if isGroundLit(a) && isGroundLit(b) {
		// two different literals of one sort
		return "false"
	}
	return app("=", a, b)
}

// isGroundLit: a decimal integer, a negated one, a bit-vector literal or a boolean constant.
func isGroundLit(s string) bool {
	if s == "true" || s == "false" {
		return true
	}
	if strings.HasPrefix(s, "(- ") && strings.HasSuffix(s, ")") {
		s = s[3 : len(s)-1]
	}
	if strings.HasPrefix(s, "(_ bv") && strings.HasSuffix(s, ")") {
		return !strings.ContainsAny(s[5:len(s)-1], "()|")
	}
	if s == "" {
		return false
	}
	for _, c := range s {
		if c < '0' || c > '9' {
			return false
		}
	}
	return true
}

func tIte(c, a, b string) string {
	if c == "true" {
		return a
	}
	if c == "false" {
		return b
	}
	if a == b {
		return a
	}
	return app("ite", c, a, b)
}

func zeroOf(sort string) string {
	switch {
	case sort == SBool:
		return "false"
	case sort == SInt:
		return "0"
	case bvWidth(sort) > 0:
		return bvLitI(0, bvWidth(sort))
	}
	return "0"
}

// sanitize makes a string usable inside a |quoted| SMT symbol.
func sanitize(s string) string {
	s = strings.ReplaceAll(s, "|", "!")
	s = strings.ReplaceAll(s, "\\", "!")
	return s
}

func sym(s string) string { return "|" + sanitize(s) + "|" }

// coreType: the single underlying type of a type parameter's type set, if any.
func coreType(tp *types.TypeParam) types.Type {
	iface, ok := tp.Constraint().Underlying().(*types.Interface)
	if !ok {
		return nil
	}
	var ct types.Type
	for i := 0; i < iface.NumEmbeddeds(); i++ {
		switch e := iface.EmbeddedType(i).(type) {
		case *types.Union:
			if e.Len() == 1 {
				ct = e.Term(0).Type().Underlying()
			}
		default:
			if _, isIface := e.Underlying().(*types.Interface); !isIface {
				ct = e.Underlying()
			}
		}
	}
	return ct
}

// under is Underlying() that sees through type parameters with a core type.
func under(t types.Type) types.Type {
	if tp, ok := t.(*types.TypeParam); ok {
		if ct := coreType(tp); ct != nil {
			return ct
		}
	}
	return t.Underlying()
}
