#!/bin/bash
# usage: seed_sweep.sh [outfile]  -- runs 'gtverify all' on a scratch copy of /repo with each seeded/canary patch applied
out=${1:-/tmp/sweep/result.txt}
rm -rf /tmp/sweep/repo; mkdir -p /tmp/sweep; cp -r /repo /tmp/sweep/repo; cp /verif/bin/gtverify /tmp/sweep/gtverify; : > $out
cd /tmp/sweep/repo
run() { # name patch
  if ! git apply "$2" 2>/dev/null; then echo "== $1 APPLY-FAILED" >> $out; return; fi
  echo "== $1" >> $out
  /tmp/sweep/gtverify all -q -repo /tmp/sweep/repo 2>&1 | grep -E "^(FAIL|VACUOUS|MISSING|OUT-OF-REACH|LOAD-ERROR|contract error|ALL)" | cut -c1-220 >> $out
  git apply -R "$2"
}
echo "== BASELINE" >> $out; /tmp/sweep/gtverify all -q -repo /tmp/sweep/repo 2>&1 | grep -E "^(FAIL|VACUOUS|ALL|contract)" >> $out
for d in /verif/seeded/*/; do run "seed $(basename $d)" $d/patch.diff; done
for p in /verif/selftest/mutants/*.patch; do run "mutant $(basename $p .patch)" $p; done
echo DONE >> $out
rm -rf /tmp/sweep/repo
