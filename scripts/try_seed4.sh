#!/bin/bash
# usage: try_seed4.sh Gk v -> runs the check of the property named in property.txt
g=$1; v=$2; sd=/tmp/seed4/$g/$v; prop=$(grep -o 'C[0-9][0-9]' $sd/property.txt | head -1)
echo "== $g $v $prop"
/verif/scripts/try_patch_file.sh $sd/patch.diff $prop | grep -E "^(VIOL|SUMM|PATCH)" | cut -c1-250 | head -4
