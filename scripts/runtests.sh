#!/bin/bash
# runs the repository's pinned test suite (guard off) and prints package verdict lines
cd /repo && GOFLAGS=-mod=mod GOPROXY=off go test -vet=off -count=1 -timeout 25m ./... 2>&1 | grep -E '^(ok|FAIL|---|panic)' 
