#!/usr/bin/env python3
# usage: import_seed4.py G3 a  -> copies a confirmed function-centric seed into /verif/seeded/<prop><group><v>/
import sys, os, json, shutil, re
g, v = sys.argv[1], sys.argv[2]
sd = '/tmp/seed4/%s/%s' % (g, v)
prop = re.search(r'C\d\d', open(sd + '/property.txt').read()).group(0)
conf = open(sd + '/confirm.txt').read().strip().split('\n')
ok = any(l.startswith('demo-clean: ok') for l in conf) and any(l.startswith('suite-mutant: ok') for l in conf) and any(('FAIL' in l or 'panic' in l) for l in conf if l.startswith('demo-mutant'))
if not ok:
    print('NOT CONFIRMED', g, v, conf); sys.exit(1)
dst = '/verif/seeded/%s%s%s' % (prop, g.lower(), v)
os.makedirs(dst, exist_ok=True)
shutil.copy(sd + '/patch.diff', dst + '/patch.diff')
shutil.copy(sd + '/zz_demo_test.go', dst + '/demo_test.go.txt')
shutil.copy(sd + '/notes.md', dst + '/notes.md')
files = sorted(set(re.findall(r'^\+\+\+ b/(\S+)', open(sd + '/patch.diff').read(), re.M)))
meta = {
 'property': prop, 'variant': g.lower() + v, 'files': files,
 'origin': 'fresh sub-agent given the texts of all 18 properties, a scratch worktree and a short list of functions the change had to be in (fourth, function-centric round); the agent named the property it breaks',
 'needs_to_manifest': 'see notes.md (author\'s description); summary in DESIGN.md section 11',
 'confirmed_by_me': {'how': 'scripts/confirm_seed.sh in a scratch worktree: demo on clean tree; apply patch; go build; full pinned suite; demo with patch; revert', 'result': conf},
 'demo': 'demo_test.go.txt (copy to /repo/zz_demo_test.go to run: go test -vet=off -count=1 -run <Test> .)',
}
json.dump(meta, open(dst + '/meta.json', 'w'), indent=1)
print('imported', dst)
