#!/usr/bin/env python3
"""Generates /verif/MANIFEST.json from scripts/manifest_data.json (claimed properties, texts)."""
import json, subprocess, sys
d = json.load(open('/verif/scripts/manifest_data.json'))
hooks = subprocess.run(['git','-C','/repo','log','--format=%h','--','contracts_verif.go'],capture_output=True,text=True).stdout.split()
m = {
 "version": 1,
 "setup_cmd": "cd /verif && GOFLAGS=-mod=mod GOPROXY=off go build -o bin/gtverify ./cmd/gtverify",
 "hooks": {
  "guard": "verif",
  "enable": "go build tag 'verif' (-tags=verif): compiles contracts_verif.go, a comments-only file holding the //@ contracts; gtverify loads /repo's working tree with the tag on",
  "baseline_off_cmd": "cd /repo && GOFLAGS=-mod=mod GOPROXY=off go test -json -vet=off -count=1 -timeout 25m ./...",
  "source_commits": hooks,
  "add_only": True
 },
 "engines": [{
   "name": "gtverify", "path": "/verif/cmd/gtverify", "serves_properties": [c["id"] for c in d["claimed"]],
   "kind_free_text": "contract-based deductive verifier for Go written for this task: weakest-precondition style symbolic execution of go/ssa built from /repo's working tree, contracts in /repo/contracts_verif.go, obligations discharged by z3 5.1 / cvc5 1.0 / z3 4.8"}],
 "checks": [],
 "not_applicable": d["not_applicable"],
 "notes": d["notes"],
}
for c in d["claimed"]:
    m["checks"].append({
      "property_id": c["id"],
      "quick_cmd": "bin/gtverify check --property %s --tier quick" % c["id"],
      "thorough_cmd": "bin/gtverify check --property %s --tier thorough" % c["id"],
      "evidence_file": "/verif/evidence/%s.json" % c["id"],
      "replay_cmd_template": "bin/gtverify replay {path}",
      "engine": "gtverify",
      "level_claimed": {"category": "proof", "text": c["text"], "design_ref": c.get("design_ref","DESIGN.md section 6 (%s)" % c["id"])},
      "level_note": c["note"],
      "technique": c.get("technique","contract-based deductive verification: pre/postconditions, loop and monitor invariants on the real functions (go/ssa), VCs discharged by SMT"),
    })
json.dump(m, open('/verif/MANIFEST.json','w'), indent=1)
print("checks:", len(m["checks"]), "n/a:", len(m["not_applicable"]))
