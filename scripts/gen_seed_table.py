#!/usr/bin/env python3
# Renders DESIGN.md section 11's table from selftest/last_result.json and seeded/*/meta.json.
import json, os, re, glob
V='/verif'
rows=json.load(open(V+'/selftest/last_result.json'))
def first_sentence(path):
    try:
        t=open(path).read()
    except Exception:
        return ''
    for l in t.split('\n'):
        l=l.strip()
        if l.startswith('#'):
            l=l.lstrip('#').strip()
            l=re.sub(r'^C\d\d\s*/?\s*variant\s*\w\s*[—-]\s*','',l)
            l=re.sub(r'^(Variant|variant)\s*\w\s*[:—-]\s*','',l)
            if l: return l[:150]
    return ''
out=[]
out.append('| entry | property | file(s) | what the change does (author\'s headline) | verdict of the property\'s own check | failing obligations (first three) |')
out.append('|---|---|---|---|---|---|')
must=[r for r in rows if not r['entry'].startswith('neutral/')]
neut=[r for r in rows if r['entry'].startswith('neutral/')]
for r in sorted(must,key=lambda r:(r['entry'].split('/')[0]!='seeded', r['entry'], r['property'])):
    e=r['entry']; files=''; head=''
    if e.startswith('seeded/'):
        d=V+'/'+e
        try:
            m=json.load(open(d+'/meta.json')); files=', '.join(m.get('files',[]))
        except Exception: pass
        head=first_sentence(d+'/notes.md')
    else:
        head='reverse of fix commit '+e.split('_')[1]
        pf=glob.glob(V+'/selftest/'+e+'*.patch')
        if pf:
            files=', '.join(sorted(set(re.findall(r'^\+\+\+ [ab]/(\S+)',open(pf[0]).read(),re.M))))
    verdict='VIOLATION (exit 1)' if r['exit']==1 and r.get('violations') else ('**missed** (exit %d, %d undecided)'%(r['exit'],r['undecided']))
    obs=', '.join('`%s`'%v for v in r.get('violations',[])[:3]) + (' …' if len(r.get('violations',[]))>3 else '')
    out.append('| %s | %s | %s | %s | %s | %s |'%(e.replace('mutants/','').replace('seeded/',''), r['property'], files, head.replace('|','/'), verdict, obs))
out.append('')
rep=[r for r in must if r.get('replayed')]
out.append('Of the %d must-fail rows, %d have at least one violation whose counterexample was replayed and failed on the real (changed) code; the others end with `no-failing-input-found` (no adapter for that function, or no model).' % (len(must), len(rep)))
out.append('')
out.append('Behaviour-preserving edits (must raise nothing): %d runs over %d patches, %d alarms.'%(len(neut), len(set(r['entry'] for r in neut)), sum(1 for r in neut if not r['ok'])))
bad=[r for r in neut if not r['ok']]
for r in bad:
    out.append('* ALARM on %s under %s: %s'%(r['entry'], r['property'], ', '.join(r.get('violations',[]))))
table='\n'.join(out)
p=V+'/DESIGN.md'
s=open(p).read()
b='<!-- SEEDED-TABLE-BEGIN -->'; e='<!-- SEEDED-TABLE-END -->'
if 'SEEDED-TABLE-PLACEHOLDER' in s:
    s=s.replace('SEEDED-TABLE-PLACEHOLDER', b+'\n'+table+'\n'+e)
else:
    i=s.index(b); j=s.index(e)
    s=s[:i]+b+'\n'+table+'\n'+s[j:]
open(p,'w').write(s)
print('rows', len(must), 'neutral', len(neut))
