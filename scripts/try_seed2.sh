#!/bin/bash
# usage: try_seed2.sh Cxx v [prop]  -> runs the property check on a scratch copy of /repo with /tmp/seed2/Cxx/v/patch.diff applied
id=$1; v=$2; prop=${3:-$id}; sd=${SEEDROOT:-/tmp/seed2}/$id/$v
d=$(mktemp -d /tmp/try.XXXXXX)
cp -r /repo/. $d/ && rm -rf $d/.git
( cd $d && patch -p1 -s < $sd/patch.diff ) || { echo "PATCH-FAILED"; rm -rf $d; exit 1; }
/verif/bin/gtverify check --property $prop --repo $d --no-evidence 2>&1 | grep -v conda | grep -E "^(VIOLATION|UNDECIDED|SUMMARY|KNOWN|MACHINERY|contract error)" | cut -c1-330
rm -rf $d
