#!/bin/bash
# usage: try_patch.sh <patch> <function...>   (applies to /repo, runs gtverify func, reverts)
p=$(realpath $1); shift
git -C /repo apply "$p" || exit 3
/verif/bin/gtverify func "$@" 2>&1 | grep -v conda | grep -v trivial | grep -v "^  \[unsat" | grep -v "^  \[cover:sat" | cut -c1-400
git -C /repo apply -R "$p"
