#!/bin/bash
# usage: try_neutral.sh <patch>  -> runs ALL property checks on a scratch copy with the patch; prints alarms
pf=$(realpath $1)
d=$(mktemp -d /tmp/tryn.XXXXXX)
cp -r /repo/. $d/ && rm -rf $d/.git
( cd $d && patch -p1 -s < $pf ) || { echo "PATCH-FAILED"; rm -rf $d; exit 1; }
for i in 01 02 03 04 05 06 07 08 09 10 11 12 13 14 15 16 17 18; do
  /verif/bin/gtverify check --property C$i --repo $d --no-evidence 2>&1 | grep -E "^(VIOLATION|MACHINERY|SUMMARY)" | grep -v "violations=0" | cut -c1-260
done
echo "undecided-total: $(for i in 01 05 06 13; do /verif/bin/gtverify check --property C$i --repo $d --no-evidence 2>&1 | grep -c '^UNDECIDED'; done | paste -sd+ | bc)"
rm -rf $d
