#!/usr/bin/env python3
# usage: import_seed.py <seedroot> Cxx v   -> copies a confirmed seed into /verif/seeded/Cxx<v>/ with meta.json
import sys, os, json, shutil, re
root, pid, v = sys.argv[1], sys.argv[2], sys.argv[3]
sd = os.path.join(root, pid, v)
conf = open(os.path.join(sd, 'confirm.txt')).read().strip().split('\n')
ok = any(l.startswith('demo-clean: ok') for l in conf) and any(l.startswith('suite-mutant: ok') for l in conf) and any('FAIL' in l or 'panic' in l for l in conf if l.startswith('demo-mutant'))
if not ok:
    print('NOT CONFIRMED', pid, v, conf); sys.exit(1)
dst = '/verif/seeded/%s%s' % (pid, v)
os.makedirs(dst, exist_ok=True)
shutil.copy(os.path.join(sd, 'patch.diff'), os.path.join(dst, 'patch.diff'))
shutil.copy(os.path.join(sd, 'zz_demo_test.go'), os.path.join(dst, 'demo_test.go.txt'))
shutil.copy(os.path.join(sd, 'notes.md'), os.path.join(dst, 'notes.md'))
files = sorted(set(re.findall(r'^\+\+\+ b/(\S+)', open(os.path.join(sd, 'patch.diff')).read(), re.M)))
meta = {
 'property': pid, 'variant': v, 'files': files,
 'origin': 'fresh sub-agent given only the property text and a scratch worktree (no access to /verif); round given in the variant letter (a,b first; c,d second; e,f third)',
 'needs_to_manifest': 'see notes.md (author\'s description); summary in DESIGN.md section 11',
 'confirmed_by_me': {'how': 'scripts/confirm_seed.sh in a scratch worktree: demo on clean tree; apply patch; go build; full pinned suite; demo with patch; revert', 'result': conf},
 'demo': 'demo_test.go.txt (copy to /repo/zz_demo_test.go to run: go test -vet=off -count=1 -run <Test> .)',
}
json.dump(meta, open(os.path.join(dst, 'meta.json'), 'w'), indent=1)
print('imported', dst)
