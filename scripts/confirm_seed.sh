#!/bin/bash
# usage: confirm_seed.sh Cxx v   -> confirms /tmp/seed/Cxx/v in worktree /tmp/wt/Cxx; writes /tmp/seed/Cxx/v/confirm.txt
id=$1; v=$2; wt=/tmp/wt/$id; sd=${SEEDROOT:-/tmp/seed}/$id/$v
export GOFLAGS=-mod=mod GOPROXY=off
out=$sd/confirm.txt; : > $out
cd $wt || exit 1
git checkout -q -- . ; git clean -fdq
tests=$(grep -ho '^func Test[A-Za-z0-9_]*' $sd/zz_demo_test.go | sed 's/func //' | paste -sd'|')
race=""; grep -qi 'race' $sd/notes.md && [ "$id" = C15 ] && race="-race"
cp $sd/zz_demo_test.go $wt/zz_demo_test.go
echo "demo-clean: $(go test $race -vet=off -count=1 -timeout 180s -run "^($tests)\$" . 2>&1 | grep -E '^(ok|FAIL|---|panic)' | head -5 | tr '\n' ' ')" >> $out
rm -f $wt/zz_demo_test.go
git apply $sd/patch.diff || { echo "APPLY-FAILED" >> $out; exit 1; }
echo "build: $(go build ./... 2>&1 | grep -v conda | head -3 | tr '\n' ' ')" >> $out
echo "suite-mutant: $(go test -vet=off -count=1 -timeout 25m ./... 2>&1 | grep -E '^(ok|FAIL|---|panic)' | head -5 | tr '\n' ' ')" >> $out
cp $sd/zz_demo_test.go $wt/zz_demo_test.go
echo "demo-mutant: $(go test $race -vet=off -count=1 -timeout 180s -run "^($tests)\$" . 2>&1 | grep -E '^(ok|FAIL|---|panic)' | head -5 | tr '\n' ' ')" >> $out
rm -f $wt/zz_demo_test.go
git checkout -q -- . ; git clean -fdq
cat $out
