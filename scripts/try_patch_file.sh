#!/bin/bash
# usage: try_patch_file.sh <patch> <prop> [all]  -> runs the property check on a scratch copy of /repo with the patch applied
pf=$(realpath $1); prop=$2
d=$(mktemp -d /tmp/try.XXXXXX)
cp -r /repo/. $d/ && rm -rf $d/.git
( cd $d && patch -p1 -s < $pf ) || { echo "PATCH-FAILED"; rm -rf $d; exit 1; }
if [ "$3" = all ]; then
/verif/bin/gtverify all -q -repo $d 2>&1 | grep -v conda | cut -c1-330 | tail -25
else
/verif/bin/gtverify check --property $prop --repo $d --no-evidence 2>&1 | grep -v conda | grep -E "^(VIOLATION|UNDECIDED|SUMMARY|KNOWN|MACHINERY|contract error)" | cut -c1-330
fi
rm -rf $d
