package main

import (
	"os"

	"verif/internal/engine"
)

func main() {
	os.Exit(engine.Main(os.Args[1:]))
}
